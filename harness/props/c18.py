"""C18 — including files is a deep merge in the including scope, included values win."""
import copy
import json
import os

import gen
from core import Result, guard, stable
from protocol import enc_tree, dec_tree, canon_tree, canon_sorted

RULE = ("stream A: random pairs of plain-data trees over a 5-key pool (depth<=3) through IncludeField.combine_trees vs the "
        "Lean `combine`; stream B: random schemas (include fields at root / nested, dynamic) x documents x real include files "
        "in a temp dir x 5 formats through Config._process_includes / Config.load vs the Lean `process`. A case is "
        "non-trivial when base and child share a key holding maps on both sides AND a key with a map/non-map conflict "
        "(A), or when an include is resolved inside a nested scope or chained in one scope (B); distinct = distinct canonical case")
TRUSTED_BASE = ["harness/props/c18.py (generators, reference merge used as oracle, file-name resolution table handed to the model)",
                "third-party parsers (json, PyYAML, bson, pickle, ElementTree) used to read the include files",
                "FilenameField path resolution is abstracted in the model as `resolve`; validated per case"]
ASSUMPTIONS = ["trees satisfy the dict invariant (keys unique) — true of every Python dict",
               "purity of combine_trees is by construction in Lean and is observed (deep-compare of both inputs) on the Python side"]
FORMATS = ["json", "yaml", "bson", "xml", "pickle"]


def spec_merge(b, c):
    """the property's statement, written independently of both the code and the model"""
    out = {}
    for k in list(b) + [k for k in c if k not in b]:
        if k in b and k in c:
            out[k] = spec_merge(b[k], c[k]) if isinstance(b[k], dict) and isinstance(c[k], dict) else c[k]
        elif k in c:
            out[k] = c[k]
        else:
            out[k] = b[k]
    return out


def nontrivial_pair(b, c):
    both = any(k in c and isinstance(b[k], dict) and isinstance(c[k], dict) for k in b)
    conflict = any(k in c and isinstance(b[k], dict) != isinstance(c[k], dict) for k in b)
    return both and conflict


def stream_a(ctx, res, n):
    from cincoconfig import IncludeField
    fld = IncludeField()
    cases = []
    for _ in range(n):
        b = gen.tree_dict(ctx.rng, 3)
        c = gen.tree_dict(ctx.rng, 3)
        cases.append((b, c))
    # small exhaustive-ish corner cases first
    cases[:0] = [({}, {}), ({"a": 1}, {}), ({}, {"a": 1}), ({"a": {"x": 1}}, {"a": 2}), ({"a": 2}, {"a": {"x": 1}}),
                 ({"a": {"x": {"y": 1}}, "b": 0}, {"a": {"x": {"z": 2}}, "c": None})]
    replies = ctx.model([{"cmd": "merge", "base": enc_tree(b), "child": enc_tree(c)} for b, c in cases])
    for i, (b, c) in enumerate(cases):
        b0, c0 = copy.deepcopy(b), copy.deepcopy(c)
        case = {"stream": "combine_trees", "base": b0, "child": c0}
        try:
            got = fld.combine_trees(b, c)
        except Exception as e:  # noqa
            res.case(None, kind="A:raised")
            res.violate("C18:merge-raised", "combine_trees raised %s on two plain trees" % type(e).__name__, case)
            continue
        res.case(json.dumps([b0, c0], sort_keys=True, default=str) if nontrivial_pair(b0, c0) else None,
                 sample=case, kind="A:" + ("overlap" if set(b0) & set(c0) else "disjoint"))
        exp = spec_merge(b0, c0)
        if canon_tree(got) != canon_tree(exp):
            res.violate(None, "combine_trees result differs from the deep-merge law", dict(case, got=got, expected=exp))
        if canon_tree(b) != canon_tree(b0) or canon_tree(c) != canon_tree(c0):
            res.violate(None, "combine_trees mutated an input tree", dict(case, base_after=b, child_after=c))
        if got is b or got is c:
            res.violate(None, "combine_trees returned one of its inputs", case)
        if replies is not None:
            res.traces += 1
            r = replies[i]
            if "ok" not in r or canon_tree(dec_tree(r["ok"])) != canon_tree(got):
                res.disagree("C18.combine", case, impl=got, model=r)


# ---------------------------------------------------------------------------------------------- stream B

def gen_schema(rng, depth=2):
    """skeleton: {'includes': [...], 'subs': {name: skeleton}}"""
    incs = rng.choice([[], ["inc1"], ["inc1"], ["inc1", "inc2"]])
    subs = {}
    if depth > 0:
        for name in rng.sample(["s1", "s2"], rng.randint(0, 2)):
            subs[name] = gen_schema(rng, depth - 1)
            subs[name]["ctype"] = rng.random() < 0.35          # the nested configuration is declared through a config type
    return {"includes": incs, "subs": subs}


def build_schema(sk, startdir):
    from cincoconfig import Schema, IncludeField
    s = Schema(dynamic=True)
    for inc in sk["includes"]:
        s._add_field(inc, IncludeField(startdir=startdir))
    for name, sub in sk["subs"].items():
        built = build_schema(sub, startdir)
        if sub.get("ctype"):
            from cincoconfig import make_type
            COUNTER[0] += 1
            built = make_type(built, "Section%d" % COUNTER[0])
        s._add_field(name, built)
    return s


COUNTER = [0]


def wire_schema(sk):
    return {"includes": sk["includes"], "subs": [[k, wire_schema(v)] for k, v in sk["subs"].items()]}


SIMPLE = [None, True, 0, 5, "v", "w w", 2 ** 33]


def gen_doc(rng, sk, fnames, depth=2, top=True):
    d = gen.tree_dict(rng, 1, SIMPLE, ["a", "b", "c"])
    for inc in sk["includes"]:
        r = rng.random()
        if r < 0.6:
            d[inc] = rng.choice(fnames)
        elif r < 0.7:
            d[inc] = None
    for name, sub in sk["subs"].items():
        r = rng.random()
        if r < 0.7:
            d[name] = gen_doc(rng, sub, fnames, depth - 1, False)
        elif r < 0.78:
            d[name] = rng.choice([{}, None, 0, ""])
        elif r < 0.82:
            d[name] = rng.choice(["str", 3, [1]])
    items = list(d.items())
    rng.shuffle(items)
    return dict(items)


def spec_expand(sk, tree, resolve):
    """reference semantics of the property: merge each included file's tree into the scope that names it"""
    for inc in sk["includes"]:
        fn = tree.get(inc)
        if fn is None:
            continue
        child = resolve(fn)
        if child is None:
            raise LookupError("unresolved")
        tree = spec_merge(tree, child)
    tree = dict(tree)
    for name, sub in sk["subs"].items():
        v = tree.get(name)
        if isinstance(v, dict) and v:
            tree[name] = spec_expand(sub, v, resolve)
    return tree


def stream_b(ctx, res, n):
    import cincoconfig
    from cincoconfig import asdict
    from cincoconfig.core import ConfigFormat
    from functools import partial
    tmp = ctx.tmpdir()
    home = os.environ["HOME"]
    reqs, pend = [], []
    base_cwd = os.getcwd()
    for i in range(n):
        os.chdir(base_cwd)
        rng = ctx.rng
        fmt = FORMATS[i % len(FORMATS)]
        d = os.path.join(tmp, "c%d" % i)
        os.makedirs(d)
        os.makedirs(os.path.join(d, "adir"))
        sk = gen_schema(rng)
        # files: name as written in documents -> (real path or None, tree or None)
        names = {"f1." + fmt: os.path.join(d, "f1." + fmt), "sub/f2." + fmt: os.path.join(d, "sub", "f2." + fmt),
                 os.path.join(d, "abs." + fmt): os.path.join(d, "abs." + fmt),
                 "./sub/../g3." + fmt: os.path.join(d, "g3." + fmt)}
        os.makedirs(os.path.join(d, "sub"))
        # "~/x" is joined to the start directory before expanduser, so it never resolves (file exists in HOME on purpose)
        with open(os.path.join(home, "h%d.%s" % (i, fmt)), "wb") as f:
            f.write(ConfigFormat.get(fmt).dumps(None, {"a": 1}))
        bad = ["missing." + fmt, "adir", "", 7, "~/h%d.%s" % (i, fmt)]
        fnames = list(names) * 2 + bad
        trees = {}
        # format options apply to the included files as to the including document
        opts = {}
        if fmt == "yaml" and rng.random() < 0.6:
            opts = {"root_key": rng.choice(["CONFIG", "app"])}
        elif fmt == "xml" and rng.random() < 0.6:
            opts = {"root_tag": rng.choice(["settings", "cfgroot"])}
        formatter = ConfigFormat.get(fmt, **opts)
        for nm, path in names.items():
            t = gen_doc(rng, rng.choice([sk] + list(sk["subs"].values()) + [{"includes": [], "subs": {}}]), fnames)
            trees[nm] = t
            with open(path, "wb") as f:
                f.write(formatter.dumps(None, t))
        doc = gen_doc(rng, sk, fnames)

        def resolve(fn, trees=trees):
            return copy.deepcopy(trees[fn]) if isinstance(fn, str) and fn in trees else None

        # decoys: files of the same relative names (and of the unresolvable ones) under the *current* directory, with other content —
        # an include path is resolved against the field's start directory only
        decoy = os.path.join(tmp, "decoy%d" % i)
        os.makedirs(os.path.join(decoy, "sub"))
        for nm in list(names) + ["missing." + fmt]:
            if not os.path.isabs(nm):
                with open(os.path.normpath(os.path.join(decoy, nm)), "wb") as f:
                    f.write(formatter.dumps(None, {"a": "decoy", "decoy": True}))
        old_cwd = os.getcwd()
        os.chdir(decoy)
        schema = build_schema(sk, d)
        # (1) correspondence on the processed tree
        cfg = schema()
        try:
            got = ("ok", cfg._process_includes(schema, copy.deepcopy(doc), partial(ConfigFormat.get, fmt, **opts)))
        except AttributeError:
            got = ("attribute-error", None)
        except (ValueError, OSError) as e:
            got = ("unresolved", None)
        # (2) oracle: load == load_tree(expanded)
        try:
            exp = ("ok", spec_expand(sk, copy.deepcopy(doc), resolve))
        except LookupError:
            exp = ("unresolved", None)
        except TypeError:
            exp = ("not-a-map", None)
        main = os.path.join(d, "main." + fmt)
        with open(main, "wb") as f:
            f.write(formatter.dumps(None, doc))
        cfg2 = schema()
        before = asdict(cfg2)
        try:
            if opts:
                with open(main, "rb") as fh:
                    cfg2.loads(fh.read(), fmt, **opts)       # Config.load takes no format options
            else:
                cfg2.load(main, fmt)
            loaded = ("ok", asdict(cfg2))
        except Exception as e:  # noqa
            loaded = ("fail", type(e).__name__)
            if exp[0] != "ok" and canon_sorted(asdict(cfg2)) != canon_sorted(before):
                res.violate(None, "load with an unresolvable include changed the configuration",
                            {"schema": sk, "doc": doc, "fmt": fmt, "files": trees})
        case = {"stream": "load-with-includes", "schema": sk, "doc": doc, "fmt": fmt, "opts": opts, "files": trees}
        nested = any(inc in (doc.get(s) or {}) for s, sub in sk["subs"].items() if isinstance(doc.get(s), dict) for inc in sub["includes"])
        chained = sum(1 for inc in sk["includes"] if doc.get(inc) in trees) >= 2
        res.case(json.dumps(case, sort_keys=True, default=str) if (nested or chained) and exp[0] == "ok" else None,
                 sample=case, kind="B:%s:%s" % (fmt, exp[0]))
        if exp[0] == "ok":
            cfg3 = schema()
            try:
                cfg3.load_tree(copy.deepcopy(exp[1]))
                want = ("ok", asdict(cfg3))
            except Exception as e:  # noqa
                want = ("fail", type(e).__name__)
            if loaded[0] != want[0] or (loaded[0] == "ok" and canon_sorted(loaded[1]) != canon_sorted(want[1])):
                res.violate(None, "load with includes differs from loading the deep-merged tree", dict(case, loaded=loaded, expected=want))
        else:
            if loaded[0] == "ok":
                res.violate(None, "load succeeded although an include could not be resolved", dict(case, loaded=loaded))
        if got[0] != exp[0] or (got[0] == "ok" and canon_sorted(got[1]) != canon_sorted(exp[1])):
            res.violate(None, "_process_includes differs from the deep-merge-in-scope law", dict(case, got=got, expected=exp))
        # (3) the include files change on disk; the next load through the same schema (same IncludeField objects) merges what is there now
        if exp[0] == "ok" and i % 2 == 0:
            trees2 = {}
            for nm, path in names.items():
                t2 = gen_doc(rng, rng.choice([sk] + list(sk["subs"].values()) + [{"includes": [], "subs": {}}]), fnames)
                trees2[nm] = t2
                with open(path, "wb") as f:
                    f.write(formatter.dumps(None, t2))
            try:
                exp2 = ("ok", spec_expand(sk, copy.deepcopy(doc), lambda fn: copy.deepcopy(trees2[fn]) if isinstance(fn, str) and fn in trees2 else None))
            except (LookupError, TypeError):
                exp2 = ("unresolved", None)
            cfg5 = schema()
            try:
                if opts:
                    with open(main, "rb") as fh:
                        cfg5.loads(fh.read(), fmt, **opts)
                else:
                    cfg5.load(main, fmt)
                loaded2 = ("ok", asdict(cfg5))
            except Exception as e:  # noqa
                loaded2 = ("fail", type(e).__name__)
            if exp2[0] == "ok":
                cfg6 = schema()
                try:
                    cfg6.load_tree(copy.deepcopy(exp2[1]))
                    want2 = ("ok", asdict(cfg6))
                except Exception as e:  # noqa
                    want2 = ("fail", type(e).__name__)
                if loaded2[0] != want2[0] or (loaded2[0] == "ok" and canon_sorted(loaded2[1]) != canon_sorted(want2[1])):
                    res.violate("C18:stale-include", "a later load through the same schema does not merge the include files as they are at the time of that load",
                                dict(case, files_now=trees2, loaded=loaded2, expected=want2))
            elif loaded2[0] == "ok":
                res.violate("C18:stale-include", "a later load succeeded although an include file is no longer resolvable", dict(case, files_now=trees2))
        os.chdir(old_cwd)
        # model request
        files = []
        seen = []
        def collect(t):
            if isinstance(t, dict):
                for k, v in t.items():
                    if k in ("inc1", "inc2") and v is not None and not isinstance(v, (dict, list)):
                        if not any(canon_sorted(v) == canon_sorted(s) for s in seen):
                            seen.append(v)
                    collect(v)
            elif isinstance(t, list):
                for v in t:
                    collect(v)
        collect(doc)
        for t in trees.values():
            collect(t)
        for v in seen:
            r = resolve(v)
            files.append([enc_tree(v), enc_tree(r) if r is not None else None])
        reqs.append({"cmd": "includes", "schema": wire_schema(sk), "tree": enc_tree(doc), "files": files})
        pend.append((case, got))
    os.chdir(base_cwd)
    replies = ctx.model(reqs)
    if replies is not None:
        for (case, got), r in zip(pend, replies):
            res.traces += 1
            ok = "ok" in r and r["ok"]["out"] == got[0] and (got[0] != "ok" or canon_sorted(dec_tree(r["ok"]["tree"])) == canon_sorted(got[1]))
            if not ok:
                res.disagree("C18.process_includes", case, impl=got, model=r)


def file_bytes_stream(ctx, res):
    """well-formed include files whose BYTES start or end with what looks like white space or a byte-order mark to a text tool: BSON
    files of every length from 5 to 48 bytes (the length prefix is the first byte: 9 = TAB, 10 = LF, 13 = CR, 32 = SPACE ...), pickle
    files, and text files with surrounding blank lines. The load is the load of the deep-merged tree, at the root and in a nested scope."""
    import cincoconfig as cc
    tmp = ctx.tmpdir()
    fmt_b = cc.ConfigFormat.get("bson")
    s = cc.Schema(dynamic=True)
    s.include = cc.IncludeField(startdir=tmp)
    s.x = cc.StringField(default="base")
    s.sub = cc.Schema(dynamic=True)
    s.sub.include = cc.IncludeField(startdir=tmp)
    s.sub.y = cc.StringField(default="base")
    lengths = set()
    for n in range(0, 44):
        for key in ("x", "xx"):
            inc_tree = {key: "v" * n}
            body = fmt_b.dumps(s(), inc_tree)
            if len(body) in lengths and key == "xx":
                continue
            lengths.add(len(body))
            for scope in ("root", "nested"):
                fn = "inc-%d-%s-%s.bson" % (n, key, scope)
                with open(os.path.join(tmp, fn), "wb") as fp:
                    fp.write(body)
                doc = {"include": fn, "x": "doc"} if scope == "root" else {"sub": {"include": fn, "y": "doc"}}
                want_scope = dict({"x": "doc"} if scope == "root" else {"y": "doc"}, **inc_tree)
                cfg = s()
                case = {"stream": "file-bytes", "fmt": "bson", "include_file_length": len(body), "first_byte": body[0], "scope": scope}
                res.case(stable(case), kind="file-bytes:bson")
                try:
                    cfg.loads(fmt_b.dumps(cfg, doc), format="bson")
                    got = cfg.to_tree() if scope == "root" else cfg.sub.to_tree()
                    got = {k: v for k, v in got.items() if k in want_scope}
                except Exception as e:  # noqa
                    got = "raised %s: %s" % (type(e).__name__, str(e)[:80])
                if got != want_scope:
                    res.violate("C18:include-file-bytes", "a load naming an existing, well-formed include file is not the load of the merged tree",
                                dict(case, got=got, want=want_scope))
    # text formats: blank lines / a byte-order mark around a hand-written include file change nothing
    for fmt, body in (("json", b'\n\n  {"x": "inc"}\n\n'), ("yaml", b"\n\nx: inc\n\n"), ("json", b'{"x": "inc"}'), ("yaml", b"x: inc")):
        fn = "hand-%d.%s" % (len(body), fmt)
        with open(os.path.join(tmp, fn), "wb") as fp:
            fp.write(body)
        cfg = s()
        case = {"stream": "file-bytes", "fmt": fmt, "body": body.decode()}
        res.case(stable(case), kind="file-bytes:" + fmt)
        try:
            cfg.loads(cc.ConfigFormat.get(fmt).dumps(cfg, {"include": fn, "x": "doc", "z": 1}), format=fmt)
            got = {k: cfg.to_tree().get(k) for k in ("x", "z")}
        except Exception as e:  # noqa
            got = "raised %s: %s" % (type(e).__name__, str(e)[:80])
        if got != {"x": "inc", "z": 1}:
            res.violate("C18:include-file-bytes", "a load naming an existing, well-formed include file is not the load of the merged tree", dict(case, got=got))


def startdir_history_stream(ctx, res):
    """include paths resolve against the configured start directory AT THE TIME OF THE LOAD: one schema (one include field) loads the
    documents of several sites one after the other — a relative start directory while the process changes into each site's
    directory, a start directory below `~` while the home directory changes, the field's start directory re-pointed between loads;
    every load merges the include file of ITS site, and a site without the file fails"""
    import cincoconfig as cc
    top = os.path.realpath(ctx.tmpdir())
    n = [0]

    def site(name, port, with_file=True, sub="conf.d"):
        n[0] += 1
        path = os.path.join(top, "%s-%d" % (name, n[0]))
        os.makedirs(os.path.join(path, sub))
        if with_file:
            with open(os.path.join(path, sub, "db.json"), "w") as fp:
                json.dump({"host": name + "-db", "port": port, "opts": {"pool": port % 10}}, fp)
        with open(os.path.join(path, "main.json"), "w") as fp:
            json.dump({"name": name, "db": {"include": "db.json", "host": "localhost", "opts": {"tls": 1}}}, fp)
        return path

    def expected(name, port):
        return {"name": name, "db": {"host": name + "-db", "port": port, "opts": {"tls": 1, "pool": port % 10}}}

    def values(cfg):
        tree = cfg.to_tree()
        tree["db"].pop("include", None)
        return tree

    def new_schema(startdir):
        s = cc.Schema()
        s.name = cc.StringField()
        inc = cc.IncludeField(startdir=startdir)
        s.db.include = inc
        s.db.host = cc.StringField()
        s.db.port = cc.IntField()
        s.db.opts.pool = cc.IntField()
        s.db.opts.tls = cc.IntField()
        return s, inc
    home0, cwd0 = os.environ.get("HOME"), os.getcwd()
    for mode in ("relative-with-chdir", "tilde-with-home", "re-pointed"):
        s, inc = new_schema("conf.d" if mode == "relative-with-chdir" else "~/conf.d" if mode == "tilde-with-home" else os.path.join(top, "nowhere"))
        plan = [("alpha", 1111, True), ("beta", 2222, True), ("gamma", 3333, False), ("delta", 4444, True), ("alpha2", 5555, True)]
        try:
            for k, (name, port, with_file) in enumerate(plan):
                path = site(name, port, with_file)
                if mode == "relative-with-chdir":
                    os.chdir(path)
                elif mode == "tilde-with-home":
                    os.environ["HOME"] = path
                else:
                    inc.startdir = os.path.join(path, "conf.d")
                case = {"stream": "startdir-history", "mode": mode, "load": k, "site": name, "has_include_file": with_file}
                res.case(stable(case), kind="startdir-history:" + mode)
                cfg = s()
                try:
                    cfg.load(os.path.join(path, "main.json"), format="json")
                    got = values(cfg)
                except Exception as e:  # noqa
                    got = "raised %s" % type(e).__name__
                if with_file and got != expected(name, port):
                    res.violate("C18:startdir-at-load", "an include was not resolved against the start directory as configured at the time of the load (an earlier load's directory "
                                "was used, or the load failed)", dict(case, loaded=got, expected=expected(name, port)))
                    break
                if not with_file and not isinstance(got, str):
                    res.violate("C18:missing-include-accepted", "a load succeeded although the include file does not exist below the start directory configured at the time of the load",
                                dict(case, loaded=got))
                    break
        finally:
            os.chdir(cwd0)
            if home0 is None:
                os.environ.pop("HOME", None)
            else:
                os.environ["HOME"] = home0


def siblings_and_reappearing_files_stream(ctx, res):
    """(a) several sibling fields of the SAME config type (and of the same sub-schema object mounted twice is not possible, so: two
    config-type fields, a config-type field next to a plain section of equal shape), each naming its own include file: every one of
    them is merged, the result equals loading the hand-merged tree; (b) an include file that does not exist at the first load (the
    load fails) and exists at the second: the second load — into a new configuration and into the same one — merges it; and the other
    way round (a file that existed and was removed makes the later load fail)"""
    import cincoconfig as cc
    tmp = os.path.realpath(ctx.tmpdir())
    # (a)
    db = cc.Schema()
    db.include = cc.IncludeField(startdir=tmp)
    db.host = cc.StringField(default="localhost")
    db.port = cc.IntField(default=1)
    db.opts.retries = cc.IntField(default=1)
    Db = cc.make_type(db, "SibDb")
    s = cc.Schema()
    s.primary = Db
    s.replica = Db
    s.archive = Db
    s.plain.include = cc.IncludeField(startdir=tmp)
    s.plain.host = cc.StringField(default="localhost")
    files = {"p.json": {"host": "p.example", "port": 5000, "opts": {"retries": 5}}, "r.json": {"host": "r.example", "port": 6000, "opts": {"retries": 7}},
             "a.json": {"host": "a.example"}, "x.json": {"host": "x.example"}}
    for name, tree in files.items():
        with open(os.path.join(tmp, name), "w") as fp:
            json.dump(tree, fp)
    for which in (["primary"], ["replica"], ["primary", "replica"], ["replica", "archive"], ["primary", "replica", "archive", "plain"], ["archive", "plain"]):
        doc = {}
        merged = {}
        for k, fname in (("primary", "p.json"), ("replica", "r.json"), ("archive", "a.json"), ("plain", "x.json")):
            if k in which:
                doc[k] = {"include": fname, "port": 2222} if k != "plain" else {"include": fname}
                merged[k] = dict({"port": 2222} if k != "plain" else {}, **files[fname])
                merged[k]["include"] = fname
        case = {"stream": "sibling-config-types", "sections_with_an_include": which}
        res.case(stable(case), kind="sibling-config-types")
        try:
            a, b = s(), s()
            a.loads(json.dumps(doc).encode(), format="json")
            b.load_tree(json.loads(json.dumps(merged)))
            ta, tb = a.to_tree(), b.to_tree()
            for t in (ta, tb):
                for k in t:
                    if isinstance(t[k], dict):
                        t[k].pop("include", None)
        except Exception as e:  # noqa
            res.violate("C18:sibling-scopes", "loading a document whose sibling sections each name an include raised %s" % type(e).__name__, dict(case, error=str(e)[:120]))
            continue
        if ta != tb:
            res.violate("C18:sibling-scopes", "a document whose sibling sections (fields of one config type) each name an include file does not load like the hand-merged tree",
                        dict(case, with_includes=ta, merged=tb))
    # (b)
    for fmt, opts in (("json", {}), ("yaml", {"root_key": "APP"})):
        sub = os.path.join(tmp, "conf-%s" % fmt)
        os.makedirs(sub, exist_ok=True)
        t = cc.Schema()
        t.name = cc.StringField(default="n")
        t.db.include = cc.IncludeField(startdir=sub)
        t.db.host = cc.StringField(default="localhost")
        F_ = cc.ConfigFormat.get(fmt, **opts)
        inc = os.path.join(sub, "site-db." + fmt)
        doc = F_.dumps(None, {"name": "site", "db": {"include": "site-db." + fmt}})
        if os.path.exists(inc):
            os.remove(inc)
        same = t()
        plan = [("absent", False), ("created", True), ("created", True), ("removed", False), ("created", True)]
        for k, (state, should_load) in enumerate(plan):
            if state == "created":
                with open(inc, "wb") as fp:
                    fp.write(cc.ConfigFormat.get(fmt).dumps(None, {"host": "db-%d.example" % k}) if not opts else F_.dumps(None, {"host": "db-%d.example" % k}))
            elif os.path.exists(inc):
                os.remove(inc)
            for target_kind in ("new", "same"):
                cfg = t() if target_kind == "new" else same
                case = {"stream": "reappearing-include", "fmt": fmt, "load": k, "file_is": state, "into": target_kind}
                res.case(stable(case), kind="reappearing-include")
                try:
                    cfg.loads(doc, format=fmt, **opts)
                    got = cfg.db.host
                except Exception as e:  # noqa
                    got = "raised %s" % type(e).__name__
                if should_load and got != "db-%d.example" % k:
                    res.violate("C18:include-state-remembered", "an include file that exists at the time of the load was not merged (an earlier load had found it missing, or had "
                                "read another content)", dict(case, got=got))
                elif not should_load and not str(got).startswith("raised"):
                    res.violate("C18:missing-include-accepted", "a load succeeded although the include file does not exist at the time of the load", dict(case, got=got))


def working_directory_backslashes_and_own_formats_stream(ctx, res):
    """(a) an include field given NO start directory (the documented default use) resolves a relative include path against the
    working directory AT THE LOAD, also when the process changed directory after the schema was defined — two directories hold a
    file of the same name with different content, and a name that exists in only one of them; (b) on POSIX a backslash is an
    ordinary character of a file name: an include path names the file it spells (`sub\\db.json` is a file of that name, not
    `sub/db.json`), the load fails if exactly that file does not exist; (c) a user-defined format whose instances keep parser state
    (one instance must not parse two documents): documents with includes at the root, in nested scopes and chains still load like
    the merged tree, because every document gets a formatter of its own"""
    import cincoconfig as cc
    import ext
    tmp = os.path.realpath(ctx.tmpdir())
    cwd0 = os.getcwd()
    # (a)
    d1, d2 = os.path.join(tmp, "wd-defined"), os.path.join(tmp, "wd-loaded")
    for d, tag in ((d1, "defined"), (d2, "loaded")):
        os.makedirs(os.path.join(d, "sub"), exist_ok=True)
        for rel in ("inc.json", os.path.join("sub", "inc.json")):
            with open(os.path.join(d, rel), "w") as fp:
                json.dump({"host": "%s-%s" % (tag, rel.replace(os.sep, "-"))}, fp)
    with open(os.path.join(d2, "only-loaded.json"), "w") as fp:
        json.dump({"host": "only-loaded"}, fp)
    with open(os.path.join(d1, "only-defined.json"), "w") as fp:
        json.dump({"host": "only-defined"}, fp)
    try:
        os.chdir(d1)
        s = cc.Schema()
        s.include = cc.IncludeField()
        s.host = cc.StringField(default="h")
        s.db.include = cc.IncludeField()
        s.db.host = cc.StringField(default="h")
        os.chdir(d2)
        for rel, want in (("inc.json", "loaded-inc.json"), (os.path.join("sub", "inc.json"), "loaded-sub-inc.json"), ("only-loaded.json", "only-loaded"), ("only-defined.json", None),
                          (os.path.join(d1, "only-defined.json"), "only-defined")):
            for scope in ("root", "nested"):
                doc = {"include": rel} if scope == "root" else {"db": {"include": rel}}
                case = {"stream": "no-startdir-chdir", "include": rel if not os.path.isabs(rel) else "<absolute>", "scope": scope}
                res.case(stable(case), kind="no-startdir-chdir")
                cfg = s()
                try:
                    cfg.loads(json.dumps(doc).encode(), format="json")
                    got = cfg.host if scope == "root" else cfg.db.host
                except cc.ValidationError:
                    got = None
                except Exception as e:  # noqa
                    got = "raised %s" % type(e).__name__
                if got != want:
                    res.violate("C18:startdir", "an include field without a start directory did not resolve a relative path against the working directory at the load",
                                dict(case, got=got, want=want))
    finally:
        os.chdir(cwd0)
    # (b)
    if os.path.sep == "/":
        bs = os.path.join(tmp, "bs")
        os.makedirs(os.path.join(bs, "sub"), exist_ok=True)
        with open(os.path.join(bs, "sub", "db.json"), "w") as fp:
            json.dump({"host": "slash-spelled"}, fp)
        with open(os.path.join(bs, "win\\style.json"), "w") as fp:
            json.dump({"host": "backslash-in-name"}, fp)
        t = cc.Schema()
        t.include = cc.IncludeField(startdir=bs)
        t.host = cc.StringField(default="h")
        t.db.include = cc.IncludeField(startdir=bs)
        t.db.host = cc.StringField(default="h")
        for rel, want in (("sub/db.json", "slash-spelled"), ("sub\\db.json", None), ("win\\style.json", "backslash-in-name"), ("win/style.json", None),
                          (os.path.join(bs, "win\\style.json"), "backslash-in-name")):
            for scope in ("root", "nested"):
                doc = {"include": rel} if scope == "root" else {"db": {"include": rel}}
                case = {"stream": "backslash-names", "include": rel if not os.path.isabs(rel) else "<absolute>/win\\style.json", "scope": scope}
                res.case(stable(case), kind="backslash-names")
                cfg = t()
                try:
                    cfg.loads(json.dumps(doc).encode(), format="json")
                    got = cfg.host if scope == "root" else cfg.db.host
                except cc.ValidationError:
                    got = None
                except Exception as e:  # noqa
                    got = "raised %s" % type(e).__name__
                if got != want:
                    res.violate("C18:missing-file" if want is None else "C18:wrong-file", "an include path with a backslash did not name the file it spells", dict(case, got=got, want=want))
    # (c)
    ext.ns()
    fdir = os.path.join(tmp, "own-format")
    os.makedirs(fdir, exist_ok=True)
    enc = lambda tree: json.dumps(tree, sort_keys=True)[::-1].encode("utf-8")      # noqa: E731
    u = cc.Schema()
    u.include = cc.IncludeField(startdir=fdir)
    u.name = cc.StringField(default="n")
    u.db.include = cc.IncludeField(startdir=fdir)
    u.db.host = cc.StringField(default="h")
    u.db.pool.include = cc.IncludeField(startdir=fdir)
    u.db.pool.size = cc.IntField(default=1)
    files = {"root.rjson": {"name": "from-root-include", "db": {"host": "root-inc-host"}}, "db.rjson": {"host": "db-inc-host", "pool": {"size": 7}}, "pool.rjson": {"size": 42}}
    for name, tree in files.items():
        with open(os.path.join(fdir, name), "wb") as fp:
            fp.write(enc(tree))
    for label, doc, want in (("root include", {"include": "root.rjson", "name": "doc"}, {"name": "from-root-include", "db.host": "root-inc-host", "db.pool.size": 1}),
                             ("nested include", {"name": "doc", "db": {"include": "db.rjson", "host": "doc-host"}}, {"name": "doc", "db.host": "db-inc-host", "db.pool.size": 7}),
                             ("two scopes", {"include": "root.rjson", "db": {"pool": {"include": "pool.rjson"}}}, {"name": "from-root-include", "db.host": "root-inc-host", "db.pool.size": 42}),
                             ("three scopes", {"include": "root.rjson", "db": {"include": "db.rjson", "pool": {"include": "pool.rjson", "size": 3}}},
                              {"name": "from-root-include", "db.host": "db-inc-host", "db.pool.size": 42})):
        case = {"stream": "stateful-own-format", "document": label}
        res.case(stable(case), kind="stateful-own-format")
        cfg = u()
        try:
            cfg.loads(enc(doc), format="rjson")
            got = {k: cfg[k] for k in want}
        except Exception as e:  # noqa
            got = "raised %s: %s" % (type(e).__name__, str(e)[:80])
        if got != want:
            res.violate("C18:own-format", "a document in a user-defined format whose instances keep parser state did not load like the merged tree (one formatter instance parsed "
                        "more than one document?)", dict(case, got=got, want=want))

def lexical_paths_stream(ctx, res):
    """include paths resolve against the configured start directory LEXICALLY (join, normalise): (a) `profiles/../inc.json` where
    `<startdir>/profiles` is a symbolic link to a directory with another parent names `<startdir>/inc.json`, not the file next to
    the link's target; (b) a start directory that consists of separators only (`/`, `//`) is still a start directory: a relative
    include path resolves against the root, whatever the working directory is, and a file of the same relative name below the
    working directory is not merged; (c) an include key that is present but EMPTY names no existing file — the load fails — at the
    root and in a nested scope (`None` and a missing key mean: no include)"""
    import cincoconfig as cc
    tmp = os.path.realpath(ctx.tmpdir())
    base = os.path.join(tmp, "lexical")
    conf, shared, elsewhere, cwd_dir = (os.path.join(base, n) for n in ("conf", "shared", "elsewhere", "cwd"))
    for d in (conf, os.path.join(shared, "profiles-real"), elsewhere, cwd_dir):
        os.makedirs(d, exist_ok=True)
    link = os.path.join(conf, "profiles")
    if not os.path.islink(link):
        os.symlink(os.path.join(shared, "profiles-real"), link)
    with open(os.path.join(conf, "inc.json"), "w") as fp:
        json.dump({"db": {"port": 2, "host": "x"}}, fp)
    with open(os.path.join(shared, "inc.json"), "w") as fp:
        json.dump({"db": {"port": 99, "host": "elsewhere"}}, fp)
    with open(os.path.join(shared, "profiles-real", "p.json"), "w") as fp:
        json.dump({"db": {"port": 7, "host": "profile"}}, fp)

    def schema(startdir):
        s = cc.Schema()
        s.include = cc.IncludeField(startdir=startdir)
        s.mode = cc.StringField(default="m")
        s.db.port = cc.IntField(default=1)
        s.db.host = cc.StringField(default="h")
        s.app.include = cc.IncludeField(startdir=startdir)
        s.app.db.port = cc.IntField(default=1)
        s.app.db.host = cc.StringField(default="h")
        return s
    # (a)
    for rel, want in (("profiles/../inc.json", (2, "x")), ("profiles/p.json", (7, "profile")), ("./profiles/./../inc.json", (2, "x")), ("inc.json", (2, "x")),
                      ("../shared/inc.json", (99, "elsewhere")), ("profiles/../missing.json", None)):
        for scope in ("root", "nested"):
            cfg = schema(conf)()
            doc = {"include": rel} if scope == "root" else {"app": {"include": rel}}
            case = {"stream": "lexical-paths", "include": rel, "scope": scope}
            res.case(stable(case), kind="lexical-paths")
            try:
                cfg.loads(json.dumps(doc).encode(), format="json")
                got = (cfg.db.port, cfg.db.host) if scope == "root" else (cfg.app.db.port, cfg.app.db.host)
            except cc.ValidationError:
                got = None
            except Exception as e:  # noqa
                got = "raised %s" % type(e).__name__
            if got != want:
                res.violate("C18:startdir", "an include path with `..` through a symbolic link below the start directory did not name the lexically resolved file",
                            dict(case, got=repr(got), want=repr(want)))
    # (b)
    rel_conf = os.path.join(conf, "inc.json").lstrip("/")
    os.makedirs(os.path.dirname(os.path.join(cwd_dir, rel_conf)), exist_ok=True)
    with open(os.path.join(cwd_dir, rel_conf), "w") as fp:
        json.dump({"db": {"port": 99, "host": "from-cwd"}}, fp)
    cwd0 = os.getcwd()
    try:
        os.chdir(cwd_dir)
        for sd in ("/", "//", conf + "/", conf + "//"):
            rel = rel_conf if sd.strip("/") == "" else "inc.json"
            for scope in ("root", "nested"):
                cfg = schema(sd)()
                doc = {"include": rel} if scope == "root" else {"app": {"include": rel}}
                case = {"stream": "separator-startdir", "startdir": sd if sd.strip("/") == "" else "<conf>" + sd[len(conf):], "scope": scope}
                res.case(stable(case), kind="separator-startdir")
                try:
                    cfg.loads(json.dumps(doc).encode(), format="json")
                    got = (cfg.db.port, cfg.db.host) if scope == "root" else (cfg.app.db.port, cfg.app.db.host)
                except Exception as e:  # noqa
                    got = "raised %s: %s" % (type(e).__name__, str(e)[:60])
                if got != (2, "x"):
                    res.violate("C18:startdir", "a start directory written with trailing separators (or consisting of separators only) was not the directory the include path "
                                "resolved against", dict(case, got=repr(got)))
    finally:
        os.chdir(cwd0)
    # (c)
    for value, fails in (("", True), (None, False), ("inc.json", False)):
        for scope in ("root", "nested"):
            cfg = schema(conf)()
            doc = {"include": value, "mode": "x"} if scope == "root" else {"mode": "x", "app": {"include": value, "db": {"port": 5}}}
            case = {"stream": "empty-include-path", "include": repr(value), "scope": scope}
            res.case(stable(case), kind="empty-include-path")
            try:
                cfg.loads(json.dumps(doc).encode(), format="json")
                failed = False
            except Exception:  # noqa
                failed = True
            if failed != fails:
                res.violate("C18:missing-file", "an include key that is present but empty names no existing file: the load has to fail (and None / a path that exists must not)",
                            dict(case, load_failed=failed))

def run(ctx):
    res = Result()
    guard(res, "C18", lexical_paths_stream, ctx, res)
    guard(res, "C18", working_directory_backslashes_and_own_formats_stream, ctx, res)
    guard(res, "C18", stream_a, ctx, res, ctx.n(2000, 60000))
    guard(res, "C18", stream_b, ctx, res, ctx.n(150, 3000))
    guard(res, "C18", file_bytes_stream, ctx, res)
    guard(res, "C18", startdir_history_stream, ctx, res)
    guard(res, "C18", siblings_and_reappearing_files_stream, ctx, res)
    return res


def search(ctx, broken, res0):
    res = Result()
    stream_a(ctx, res, ctx.n(2000, 60000))
    stream_b(ctx, res, ctx.n(150, 3000))
    return res


def replay(ctx, payload):
    res = Result()
    case = payload.get("case") or {}
    if case.get("stream") == "combine_trees":
        from cincoconfig import IncludeField
        got = IncludeField().combine_trees(copy.deepcopy(case["base"]), copy.deepcopy(case["child"]))
        res.case(None, sample=case)
        if canon_tree(got) != canon_tree(spec_merge(case["base"], case["child"])):
            res.violate(None, "combine_trees result differs from the deep-merge law", dict(case, got=got))
    else:
        return run(ctx)
    return res
