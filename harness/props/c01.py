"""C01 — every value a configuration holds satisfies its field's declared constraints."""
import copy
import json

import cfgs as C
import fields as F
import hist as H
import props.cfgprops as P
from core import Result, stable, guard

RULE = ("random schemas (depth <= 2; every built-in field kind with boundary-heavy options, valid defaults, sub-schemas, config types, "
        "lists of configurations, dynamic schemas, virtual fields, instance methods, feature flags, schema validators) x histories of "
        "6-16 operations over all routes (dotted-path and chained-attribute assignment of values / maps / configuration objects, "
        "unknown keys, load_tree, validate, reset, to_tree) with arguments from valid / boundary / normalisable / invalid / wrongly "
        "typed pools; after every operation the full state (values with Python kinds, default marks, dynamic fields, identities) is "
        "compared with the Lean model, and every readable value (any depth, list items included) is re-validated by its own field. "
        "Non-trivial = the history has an accepted and a rejected mutating operation and touches depth >= 2 or a list of configurations")
TRUSTED_BASE = ["harness/cfgs.py, hist.py, props/cfgprops.py (generators, adapter, state dump, canonicalisation)",
                "the field layer (see C05) and its environment tables", "values of AnyField and untyped list/dict fields are unconstrained"]
ASSUMPTIONS = ["declared defaults are valid (the generator only declares defaults the field itself accepts)",
               "constraint satisfaction of a held value is checked as 'its own field accepts it unchanged' (known findings F22/F25 and custom validators excluded)"]


def oracle(res, case, sk, ops, impl, live, tmp, keypath):
    """replays the history step by step on a second configuration to look at the live objects after every operation"""
    import cincoconfig as cc
    if live is None:
        return
    schema, cfg, built, log = live
    for n, (op, st) in enumerate(zip(ops, impl["steps"])):
        if op["op"] == "setitem" and op["value"].get("a") == "cfg" and op["value"].get("schema_same") is False and st["out"] == "ok":
            res.violate("C01:foreign-schema-config", "a configuration built from another schema was accepted as the value of a nested-schema field",
                        dict(case, at=n, op=op))
    # the final state (every intermediate state is covered by the model comparison; re-validation after every op is done below)
    P.check_invariant(res, case, sk, cfg, "end")


def oracle_stepwise(res, case, sk, ops, tmp, keypath):
    """run the history again, checking the invariant, the read-back and the frame after every operation"""
    import os
    import cincoconfig as cc
    import props.c05 as c05
    built = C.Built()
    schema = C.build_schema(sk, tmp, built, [])
    H.real_objects(sk, schema, built)
    real = os.urandom
    os.urandom = P.tape
    try:
        try:
            cfg = schema()
        except Exception:  # noqa
            return
        cfg._key_filename = keypath
        P.check_invariant(res, case, sk, cfg, "build")
        for n, op in enumerate(ops):
            if op["op"] != "setitem":
                continue
            a = op["value"]
            if a["a"] != "val":
                continue
            before = C.dump_cfg(cfg, C.Ids())
            try:
                cfg[op["key"]] = copy.deepcopy(a["py"])
                ok = True
            except Exception:  # noqa
                ok = False
            P.check_invariant(res, case, sk, cfg, n)
            sf = H.find_sf(sk, op["key"])
            if ok and sf is not None and sf["s"] == "leaf" and not c05.has_custom(sf["field"]):
                # read-back = the field's normal form of the assigned value; nothing else changed
                owner = cfg
                parts = op["key"].split(".")
                for p in parts[:-1]:
                    owner = owner._data[p]
                fld = owner._schema._fields[parts[-1]]
                try:
                    want = fld.validate(owner, copy.deepcopy(a["py"]))
                except Exception:  # noqa
                    want = None
                    res.violate("C01:accepted-but-invalid", "an assignment was accepted although the field rejects the value", dict(case, at=n, op=op))
                got = cfg[op["key"]]
                known, exact = F.independent_normal(sf["field"], a["py"])
                if known and exact is F.REJECTED:
                    res.violate("C01:accepted-but-invalid", "text that is not a whole number in base ten was accepted by an integer field", dict(case, at=n, op=op))
                elif known and not (type(got) is int and got == exact):
                    res.violate("C01:readback-not-exact", "reading an integer field after an accepted assignment does not yield the whole number that was assigned",
                                dict(case, at=n, op=op, got=F.enc_val(got), want=F.enc_val(exact)))
                if want is not None and sf["field"]["k"] != "challenge" and not c05.same(got, want):
                    res.violate("C01:readback", "reading a field after an accepted assignment does not yield its normalised form",
                                dict(case, at=n, op=op, got=F.enc_val(got), want=F.enc_val(want)))
            if ok and sf is not None and sf["s"] == "leaf" and sf["field"].get("custom") and sf["field"]["k"] in ("string", "int", "float"):
                # a validator of the application's own: what is stored is what it returned, whatever that is (0, "", False included)
                owner = cfg
                parts = op["key"].split(".")
                for p in parts[:-1]:
                    owner = owner._data[p]
                try:
                    base = F.build_field(dict(sf["field"], custom=None), tmp)
                    want = F.CATALOGUE[sf["field"]["custom"]](owner, base.validate(owner, copy.deepcopy(a["py"])))
                    got = cfg[op["key"]]
                    if not c05.same(got, want):
                        res.violate("C01:custom-result-not-stored", "the value stored after an accepted assignment is not what the field's own validator returned",
                                    dict(case, at=n, op=op, got=F.enc_val(got), want=F.enc_val(want)))
                except Exception:  # noqa
                    pass
            if ok and sf is not None and sf["s"] == "leaf" and not c05.has_custom(sf["field"]):
                after = C.dump_cfg(cfg, C.Ids())
                if not same_except(before, after, parts):
                    res.violate("C01:frame", "an accepted assignment changed another field", dict(case, at=n, op=op))
    finally:
        os.urandom = real


def same_except(a, b, parts):
    """state dumps equal except for the slot reached by `parts` (and its default mark)"""
    def strip(c, parts):
        c = copy.deepcopy(c)
        cur = c
        for p in parts[:-1]:
            nxt = [s for k, s in cur["slots"] if k == p]
            if not nxt or "node" not in nxt[0]:
                return c
            cur = nxt[0]["node"]
        cur["slots"] = [[k, s] for k, s in cur["slots"] if k != parts[-1]]
        cur["defaults"] = [d for d in cur["defaults"] if d != parts[-1]]
        return c
    return C.strip_oids(C.canon_state(strip(a, parts), {})) == C.strip_oids(C.canon_state(strip(b, parts), {}))


def proxy_stream(ctx, res, n):
    """in-place mutation of typed list / dict values through every mutator, then the invariant on the container"""
    import cincoconfig as cc
    import props.c05 as c05
    rng = ctx.rng
    tmp, keypath = P.setup(ctx)
    for i in range(n):
        item = F.gen_field(rng, 0, scalar_only=True)
        if item["k"] in ("any", "challenge", "secure", "filename") or c05.has_custom(item) or c05.finding_tag(item, None):
            continue
        # (half of the schemas map their fields to environment variables, none of which is set)
        s = cc.Schema(env="CINCO_T_C01_UNSET") if i % 2 else cc.Schema()
        try:
            s.lst = cc.ListField(F.build_field(item, tmp), default=lambda: [])
            s.dct = cc.DictField(cc.StringField(), F.build_field(item, tmp), default=lambda: {})
            # siblings of the same kind without the constraints: their proxies may hold what this field must reject or normalise
            s.loose = cc.ListField(F.build_field({"k": item["k"], "required": False}, tmp))
            s.loosed = cc.DictField(cc.StringField(), F.build_field({"k": item["k"], "required": False}, tmp))
        except Exception:  # noqa
            continue
        cfg = s()
        cfg.lst = []
        cfg.dct = {}

        def other_list(vals):
            held = []
            for v in vals:
                try:
                    cfg.loose = [v]
                    held.append(cfg.loose[0])
                except Exception:  # noqa
                    pass
            cfg.loose = held
            return cfg.loose

        def other_dict(vals):
            cfg.loosed = {}
            for n, v in enumerate(vals):
                try:
                    cfg.loosed["o%d" % n] = v
                except Exception:  # noqa
                    pass
            return cfg.loosed
        for step in range(8):
            vals = [F.gen_value(rng, item, tmp, 0.3) for _ in range(3)]
            lst, dct = cfg.lst, cfg.dct
            muts = [("append", lambda: lst.append(vals[0])), ("extend", lambda: lst.extend(vals)), ("extend-iter", lambda: lst.extend(iter(vals))),
                    ("insert", lambda: lst.insert(0, vals[0])), ("iadd", lambda: lst.__iadd__(vals)), ("setidx", lambda: lst.__setitem__(0, vals[0])),
                    ("setslice", lambda: lst.__setitem__(slice(0, 1), vals)), ("setslice-tuple", lambda: lst.__setitem__(slice(0, 2), tuple(vals))),
                    ("dict-set", lambda: dct.__setitem__("k", vals[0])), ("dict-update", lambda: dct.update({"a": vals[0], "b": vals[1]})),
                    ("dict-update-kw", lambda: dct.update(c=vals[2])), ("dict-update-pairs", lambda: dct.update([("p", vals[0])])),
                    ("dict-setdefault", lambda: dct.setdefault("sd", vals[1])), ("dict-ior", lambda: dct.__ior__({"i": vals[0], "j": vals[1]})),
                    ("extend-other-proxy", lambda: lst.extend(other_list(vals))), ("iadd-other-proxy", lambda: lst.__iadd__(other_list(vals))),
                    ("setslice-other-proxy", lambda: lst.__setitem__(slice(0, 1), other_list(vals))),
                    ("assign-other-proxy", lambda: setattr(cfg, "lst", other_list(vals))),
                    ("add-other-proxy", lambda: setattr(cfg, "lst", lst + other_list(vals))),
                    ("dict-update-other-proxy", lambda: dct.update(other_dict(vals))), ("dict-ior-other-proxy", lambda: dct.__ior__(other_dict(vals))),
                    ("dict-assign-other-proxy", lambda: setattr(cfg, "dct", other_dict(vals))),
                    ("dict-update-selfcopy-kw", lambda: dct.update(dct.copy(), kw1=vals[0], kw2=vals[1])),
                    ("dict-update-selfcopy-kw", lambda: dct.update(dct.copy(), **{"kw3": vals[2]})),
                    ("reset-then-append", lambda: (cc.reset_value(cfg, "lst"), cfg.lst.append(vals[0]), cfg.lst.extend(vals))),
                    ("reset-then-set", lambda: (cc.reset_value(cfg, "dct"), cfg.dct.__setitem__("r", vals[0]), cfg.dct.update(r2=vals[1])))]
            name, fn = rng.choice(muts)
            try:
                fn()
                outcome = "ok"
            except Exception:  # noqa
                outcome = "rejected"
            case = {"stream": "proxy-mutation", "item": item, "mutator": name, "values": [F.enc_val(v) for v in vals]}
            res.case(stable([item, name, [F.enc_val(v) for v in vals]]), sample=case if i < 1 and step < 2 else None, kind="mut:%s:%s" % (name, outcome))
            fld = s._fields["lst"].field
            for where, value in [("list", x) for x in cfg.lst] + [("dict", x) for x in cfg.dct.values()]:
                if value is None:
                    continue
                try:
                    again = fld.validate(cfg, value)
                    good = c05.same(again, value)
                except Exception:  # noqa
                    good = False
                if not good:
                    res.violate("C01:container-holds-invalid:" + name, "a typed %s holds an item its field does not accept (after %s)" % (where, name),
                                dict(case, held=F.enc_val(value)))
                    cfg.lst = []
                    cfg.dct = {}
                    break


def boundary_stream(ctx, res, n):
    """fields with declared bounds x every boundary value derived from the declaration (exactly at / just beyond each bound; strings
    whose length changes under the declared transformations) x the routes by which a value reaches a configuration; what is then
    held must satisfy the declaration, read declaratively (F.satisfies), and be accepted unchanged by its own field"""
    import cincoconfig as cc
    import props.c05 as c05
    rng = ctx.rng
    tmp, keypath = P.setup(ctx)
    done = 0
    fixed = [{"k": "url", "required": False}, {"k": "hostname", "required": False}, {"k": "hostname", "required": False, "allow_ipv4": True},
             {"k": "ipv4addr", "required": False}, {"k": "ipv4net", "required": False}, {"k": "int", "required": False, "min": -(2 ** 53), "max": 2 ** 53},
             {"k": "port", "required": False}, {"k": "hostname", "required": False, "allow_ipv4": False}, {"k": "hostname", "required": False, "min_len": 5},
             {"k": "hostname", "required": False, "max_len": 4, "allow_ipv4": False}, {"k": "bool", "required": False}, {"k": "float", "required": False, "min": 0.5},
             # integer fields declared with fractional bounds: the bound is the number that was written
             {"k": "int", "required": False, "min": 0.5, "max": 100}, {"k": "int", "required": False, "max": -0.5}, {"k": "port", "required": False, "min": 1023.5},
             {"k": "int", "required": False, "min": -2.5, "max": 2.5},
             # choices next to a case transformation: what is held is one of the declared choices, as declared
             {"k": "string", "required": False, "case": "lower", "choices": ["Alpha", "beta", "GAMMA"]}, {"k": "string", "required": False, "case": "upper", "choices": ["Alpha", "beta", "GAMMA"]},
             {"k": "string", "required": False, "case": "lower", "strip": True, "choices": ["dev", "Prod"]}, {"k": "loglevel", "required": False, "levels": ["DEBUG", "info"]}]
    import argparse
    for _ in range(n * 8 + len(fixed)):
        if done >= n + len(fixed):
            break
        f = fixed.pop() if fixed else F.gen_field(rng, 0, scalar_only=True)
        if f["k"] == "string" and rng.random() < 0.5:
            # the combinations in which the stored form and the tested form can differ
            f = {"k": "string", "required": rng.random() < 0.3, "case": rng.choice(["lower", "upper"]),
                 "strip": rng.choice([True, "x", "X", "xX", "ab", "-_"]) if rng.random() < 0.7 else None}
            f = {k: v for k, v in f.items() if v is not None}
            f[rng.choice(["min_len", "max_len"])] = rng.choice([1, 2, 3, 4, 6])
            if rng.random() < 0.3:
                f["max_len"] = f.get("min_len", 0) + rng.choice([0, 1, 3]) if "min_len" in f else f["max_len"]
        crafted = F.crafted_values(f)
        if f["k"] == "bool":
            crafted = [True, False, "OFF", "off", "0", "false", "no", "1", "yes", "True", "", "maybe", 0, 1, 2, 0.0, "f", "N"]
        if f["k"] == "float":
            crafted = list(crafted) + ["0.5", "1e3", " 2.5 ", "nan", "0.25", "x", "1_0.5"]
        if not crafted or f["k"] in ("any", "challenge", "secure", "filename") or c05.has_custom(f) or c05.finding_tag(f, None):
            continue
        done += 1
        s = cc.Schema()
        try:
            s.x = F.build_field(f, tmp)
            s.sub.y = F.build_field(f, tmp)
            s.lst = cc.ListField(F.build_field(f, tmp))
            s.dct = cc.DictField(cc.StringField(), F.build_field(f, tmp))
        except Exception:  # noqa
            continue
        try:
            cfg = s()
        except Exception:  # noqa
            continue
        cfg.lst = []
        cfg.dct = {}
        for v in crafted:
            made = {}
            routes = [("attr", lambda: setattr(cfg, "x", v), lambda: [cfg.x]), ("dotted", lambda: cfg.__setitem__("sub.y", v), lambda: [cfg.sub.y]),
                      ("load", lambda: cfg.load_tree({"x": v}), lambda: [cfg.x]), ("append", lambda: cfg.lst.append(v), lambda: list(cfg.lst)),
                      ("dict", lambda: cfg.dct.__setitem__("k", v), lambda: list(cfg.dct.values())),
                      ("ctor", lambda: made.__setitem__("c", s(x=v)), lambda: [made["c"].x] if "c" in made else []),
                      ("ctor-nested", lambda: made.__setitem__("n", s(sub={"y": v})), lambda: [made["n"].sub.y] if "n" in made else []),
                      ("override", lambda: cc.cmdline_args_override(cfg, argparse.Namespace(**{"sub.y": v, "x": None})), lambda: [cfg.sub.y]),
                      ("override-root", lambda: cc.cmdline_args_override(cfg, argparse.Namespace(**{"x": v}), ignore="sub.y"), lambda: [cfg.x])]
            by_attr = None
            for name, do, held in routes:
                if name == "load" and not isinstance(v, (str, int, float)):
                    continue
                try:
                    do()
                    outcome = "ok"
                except Exception:  # noqa
                    outcome = "rejected"
                case = {"stream": "boundary", "field": f, "route": name, "value": F.enc_val(v)}
                res.case(stable([f, name, F.enc_val(v)]) if outcome == "ok" else None, sample=case if done < 2 and name == "attr" else None,
                         kind="boundary:%s:%s:%s" % (f["k"], name, outcome))
                if name == "attr":
                    by_attr = (outcome, cfg.x)
                elif name not in ("load", "append", "dict") and v is not None and by_attr is not None:
                    # one declaration, one value: whichever way the value is handed over, it is accepted or refused alike and read back alike
                    hs = held() if outcome == "ok" else []
                    if outcome != by_attr[0] or (outcome == "ok" and (not hs or not c05.same(hs[-1], by_attr[1]) or type(hs[-1]) is not type(by_attr[1]))):
                        res.violate("C01:route-changes-normal-form:" + name, "the same value handed to the same field declaration by another route (constructor keyword, dotted path, "
                                    "command-line override) is not accepted / refused alike, or does not read back as the field's normal form",
                                    dict(case, by_attribute=[by_attr[0], F.enc_val(by_attr[1]) if by_attr[0] == "ok" else None], by_route=[outcome, F.enc_val(hs[-1]) if hs else None]))
                known, exact = F.independent_normal(f, v)
                if outcome == "ok" and known and exact is F.REJECTED:
                    res.violate("C01:holds-undeclared:" + name, "text that is not a whole number in base ten was accepted by an integer field", dict(case))
                elif outcome == "ok" and known:
                    hs = held()
                    if not hs or not (type(hs[-1]) is int and hs[-1] == exact):
                        res.violate("C01:readback-not-exact", "reading an integer field after an accepted assignment does not yield the whole number that was assigned",
                                    dict(case, held=F.enc_val(hs[-1] if hs else None), want=F.enc_val(exact)))
                for h in held():
                    if h is None:
                        continue
                    sat = F.satisfies(f, h)
                    try:
                        again = s._fields["x"].validate(cfg, h)
                        stable_ = c05.same(again, h)
                    except Exception:  # noqa
                        stable_ = False
                    if sat is False or not stable_:
                        res.violate("C01:holds-undeclared:" + name, "a configuration holds a value that does not satisfy its field's declared constraints "
                                    "(or that its own field does not accept unchanged)", dict(case, held=F.enc_val(h), satisfies=sat, accepted_unchanged=stable_))
                        cfg.lst = []
                        cfg.dct = {}
                        break


def fixed_stream(ctx, res):
    """declarations whose violation needs one particular combination, enumerated instead of drawn:
    (a) FilenameField(startdir=D, exists=...) with relative names whose existence differs between D and the working directory — what is
        held is the path resolved against D and has to meet `exists` *there*;
    (b) validators of the application's own whose result is falsy (0, "") — what is held is what the validator returned."""
    import cincoconfig as cc
    import os
    tmp, keypath = P.setup(ctx)
    start = os.path.join(tmp, "fx-start")
    work = os.path.join(tmp, "fx-work")
    for d in (start, work, os.path.join(start, "adir"), os.path.join(work, "bdir")):
        os.makedirs(d, exist_ok=True)
    for pth in (os.path.join(start, "present.txt"), os.path.join(work, "other.txt"), os.path.join(work, "adir"), os.path.join(start, "bdir")):
        if not os.path.exists(pth):
            with open(pth, "w") as fh:
                fh.write("x")
    cwd = os.getcwd()
    os.chdir(work)
    try:
        for exists in (True, False, "file", "dir"):
            for name in ("present.txt", "other.txt", "adir", "bdir", "missing.txt"):
                for route in ("attr", "list", "load"):
                    s = cc.Schema()
                    s.sub.path = cc.FilenameField(startdir=start, exists=exists)
                    s.sub.paths = cc.ListField(cc.FilenameField(startdir=start, exists=exists), default=lambda: [])
                    cfg = s()
                    try:
                        if route == "attr":
                            cfg.sub.path = name
                            held = cfg.sub.path
                        elif route == "list":
                            cfg.sub.paths.append(name)
                            held = cfg.sub.paths[0]
                        else:
                            cfg.load_tree({"sub": {"path": name}})
                            held = cfg.sub.path
                    except Exception:  # noqa
                        res.case(None, kind="fixed:filename:rejected")
                        continue
                    case = {"stream": "fixed", "what": "filename", "exists": exists, "name": name, "route": route, "held": held}
                    res.case(stable([exists, name, route]), kind="fixed:filename:accepted")
                    ok = os.path.isabs(held) and {True: os.path.exists, False: lambda p_: not os.path.exists(p_), "file": os.path.isfile, "dir": os.path.isdir}[exists](held)
                    if not ok:
                        res.violate("C01:holds-undeclared:filename", "a configuration holds a file name that does not meet the field's declared existence constraint "
                                    "(the held path is the one resolved against the start directory)", case)
    finally:
        os.chdir(cwd)
    # (c) buffers that are not bytes (bytearray, memoryview, array) offered to a bytes field on every route: if they are taken at all, what is
    # held is an immutable `bytes` object of the configuration's own — changing the caller's buffer afterwards changes nothing
    import array
    for enc in ("base64", "hex"):
        for bname, mkbuf in (("bytearray", lambda: bytearray(b"buffer-1")), ("memoryview", lambda: memoryview(bytearray(b"buffer-2"))), ("empty-bytearray", lambda: bytearray()),
                             ("array", lambda: array.array("B", b"buffer-3"))):
            for route in ("attr", "dotted", "ctor", "load", "list", "dict"):
                s = cc.Schema()
                s.a.b.x = cc.BytesField(encoding=enc)
                s.lst = cc.ListField(cc.BytesField(encoding=enc), default=lambda: [])
                s.dct = cc.DictField(cc.StringField(), cc.BytesField(encoding=enc), default=lambda: {})
                buf = mkbuf()
                try:
                    cfg = s(a={"b": {"x": buf}}) if route == "ctor" else s()
                    if route == "attr":
                        cfg.a.b.x = buf
                    elif route == "dotted":
                        cfg["a.b.x"] = buf
                    elif route == "load":
                        cfg.load_tree({"a": {"b": {"x": buf}}})
                    elif route == "list":
                        cfg.lst.append(buf)
                    elif route == "dict":
                        cfg.dct["k"] = buf
                    held = cfg.lst[0] if route == "list" else cfg.dct["k"] if route == "dict" else cfg.a.b.x
                except Exception:  # noqa
                    res.case(None, kind="fixed:buffer:rejected")
                    continue
                res.case(stable([enc, bname, route]), kind="fixed:buffer:accepted")
                snapshot = bytes(held) if held is not None else None
                try:
                    target = buf.obj if isinstance(buf, memoryview) else buf
                    if len(target):
                        target[0] = (target[0] + 1) % 256
                except Exception:  # noqa
                    pass
                again = cfg.lst[0] if route == "list" else cfg.dct["k"] if route == "dict" else cfg.a.b.x
                if held is not None and (type(held) is not bytes or bytes(again) != snapshot):
                    res.violate("C01:holds-undeclared:buffer", "a bytes field holds a buffer that is not an immutable bytes object of its own (its type constraint is `bytes`)",
                                {"stream": "fixed", "what": "buffer", "buffer": bname, "route": route, "encoding": enc, "held_type": type(held).__name__,
                                 "changed_with_callers_buffer": bytes(again) != snapshot})
    # (d) typed lists / dicts whose (valid, normal-form) default is declared in another shape than a list / dict literal — a tuple, a list
    # of pairs, a factory returning one of these: the value a fresh configuration (and a reset) holds is a typed container like any other,
    # so in-place mutation is validated and what is held keeps satisfying the item / key / value constraints
    for where in ("fresh", "after-reset"):
        for shape, mk in (("dict-from-pairs", lambda: cc.DictField(cc.StringField(max_len=3), cc.IntField(max=5), default=[("a", 1)])),
                          ("dict-from-pairs-factory", lambda: cc.DictField(cc.StringField(max_len=3), cc.IntField(max=5), default=lambda: [("a", 1)])),
                          ("dict-from-dict", lambda: cc.DictField(cc.StringField(max_len=3), cc.IntField(max=5), default={"a": 1})),
                          ("list-from-tuple", lambda: cc.ListField(cc.IntField(max=5), default=(1, 2))),
                          ("list-from-tuple-factory", lambda: cc.ListField(cc.IntField(max=5), default=lambda: (1, 2))),
                          ("list-from-list", lambda: cc.ListField(cc.IntField(max=5), default=[1, 2]))):
            s = cc.Schema()
            s.sub.x = mk()
            cfg = s()
            if where == "after-reset":
                cfg.sub.x = {"b": 2} if shape.startswith("dict") else [3]
                cc.reset_value(cfg, "sub.x")
            held = cfg.sub.x
            attempts = []
            if shape.startswith("dict"):
                attempts = [("['b'] = 'not a number'", lambda: held.__setitem__("b", "not a number")), ("update(toolongkey=99)", lambda: held.update(toolongkey=99)),
                            ("['ok'] = 99", lambda: held.__setitem__("ok", 99)), ("setdefault('zzzz', 1)", lambda: held.setdefault("zzzz", 1))]
            else:
                attempts = [("append('x')", lambda: held.append("x")), ("append(99)", lambda: held.append(99)), ("+= [7, 'y']", lambda: held.__iadd__([7, "y"])),
                            ("insert(0, None)", lambda: held.insert(0, [1]))]
            res.case(stable([where, shape]), kind="fixed:declared-shape")
            for label, do in attempts:
                try:
                    do()
                except Exception:  # noqa
                    pass
            now = cfg.sub.x
            if shape.startswith("dict"):
                bad = [(k, v) for k, v in dict(now).items() if not (isinstance(k, str) and len(k) <= 3 and type(v) is int and v <= 5)]
            else:
                bad = [v for v in list(now) if not (type(v) is int and v <= 5)]
            if bad:
                res.violate("C01:container-holds-invalid:declared-shape", "a typed list / dict whose default was declared as a tuple / a list of pairs holds entries its fields do not "
                            "accept after in-place operations (the held value is not a typed container)", {"stream": "fixed", "what": "declared-shape", "shape": shape, "where": where,
                                                                                                          "held_type": type(now).__name__, "invalid": repr(bad)[:200]})
    for kind, mk, custom, values in (("int", lambda v: cc.IntField(validator=v), F.CATALOGUE["clamp0"], [-5, -1, 0, 3, "-7"]),
                                     ("string", lambda v: cc.StringField(validator=v), F.CATALOGUE["blank"], ["#c", "# x", "keep", ""])):
        for v in values:
            for route in ("attr", "dotted", "ctor", "load", "list", "dict"):
                s = cc.Schema()
                s.a.b.x = mk(custom)
                s.lst = cc.ListField(mk(custom), default=lambda: [])
                s.dct = cc.DictField(cc.StringField(), mk(custom), default=lambda: {})
                try:
                    cfg = s(a={"b": {"x": v}}) if route == "ctor" else s()
                    if route == "attr":
                        cfg.a.b.x = v
                    elif route == "dotted":
                        cfg["a.b.x"] = v
                    elif route == "load":
                        cfg.load_tree({"a": {"b": {"x": v}}})
                    elif route == "list":
                        cfg.lst.append(v)
                    elif route == "dict":
                        cfg.dct["k"] = v
                    held = cfg.lst[0] if route == "list" else cfg.dct["k"] if route == "dict" else cfg.a.b.x
                    base = (cc.IntField() if kind == "int" else cc.StringField())
                    want = custom(cfg, base.validate(cfg, v))
                except Exception:  # noqa
                    res.case(None, kind="fixed:custom:rejected")
                    continue
                res.case(stable([kind, F.enc_val(v), route]), kind="fixed:custom:accepted")
                if held != want or type(held) is not type(want):
                    res.violate("C01:custom-result-not-stored", "the value stored after an accepted assignment is not what the field's own validator returned",
                                {"stream": "fixed", "what": "custom", "kind": kind, "value": F.enc_val(v), "route": route, "held": F.enc_val(held), "want": F.enc_val(want)})


def dynamic_keywords_stream(ctx, res):
    """constructor keywords are one of the routes of assignment: on a dynamic configuration (plain and config type) a keyword for an
    undeclared field reads back as the value given (the same as after assignment by attribute or dotted path), next to declared
    fields whose keywords are validated; on a strict schema a keyword that names no field is refused"""
    import cincoconfig as cc
    for typed in (False, True):
        s = cc.Schema(dynamic=True)
        s.port = cc.PortField(default=80)
        s.name = cc.StringField(default="n", transform_case="upper")
        s.sub.level = cc.IntField(default=1, max=5)
        T = cc.make_type(s, "C01Dyn") if typed else s
        for kw in ({"extra": "x"}, {"extra": 0}, {"extra": [1, 2], "port": "81"}, {"extra": None, "name": "abc"}, {"a": 1, "b": {"c": 2}, "sub": {"level": "3"}}):
            case = {"stream": "dynamic-keywords", "config_type": typed, "keywords": repr(kw)}
            res.case(stable(case), kind="dynamic-keywords")
            try:
                cfg = T(**kw)
                ref = T()
                for k, v in kw.items():
                    ref[k] = v
                got, want = cfg.to_tree(), ref.to_tree()
                reads = {k: cfg[k] for k in kw if k != "sub"}
                wants = {k: ref[k] for k in kw if k != "sub"}
            except Exception as e:  # noqa
                res.violate("C01:route-changes-normal-form:ctor", "constructor keywords of a dynamic configuration raised %s" % type(e).__name__, dict(case, error=str(e)[:100]))
                continue
            if got != want or reads != wants:
                res.violate("C01:route-changes-normal-form:ctor", "a constructor keyword of a dynamic configuration does not read back like the same assignment by dotted path",
                            dict(case, by_keyword=repr(got)[:200], by_assignment=repr(want)[:200]))
    strict = cc.Schema()
    strict.port = cc.PortField(default=80)
    res.case("dynamic-keywords:strict", kind="dynamic-keywords")
    try:
        strict(prot=81)
        res.violate("C01:route-changes-normal-form:ctor", "a keyword that names no field of a non-dynamic schema was accepted silently", {"stream": "dynamic-keywords", "keyword": "prot"})
    except Exception:  # noqa
        pass


def chain_and_owner_stream(ctx, res):
    """(a) several validators on one field — the constructor's and decorated ones, on leaves and on the item field of a typed list — are
    a CHAIN: each gets what the one before returned, the field holds what the last returned (a cap applied by the first is still
    applied after the second; a normalisation is not thrown away); (b) a typed dict handed from ANOTHER configuration of the schema is
    validated by the receiver — a value validator that reads the receiver's other fields is asked; (c) a section whose feature flag
    is OFF still validates what is assigned to its fields by every route"""
    import cincoconfig as cc
    from cincoconfig.support import validator as register
    # (a)
    for route in ("attr", "dotted", "load_tree", "ctor", "list-item"):
        s = cc.Schema()
        s.pool.workers = cc.IntField(default=1, validator=lambda cfg, v: min(v, 8))
        s.pool.tag = cc.StringField(default="t", validator=lambda cfg, v: v.strip())
        s.pool.tags = cc.ListField(cc.StringField(validator=lambda cfg, v: v.strip()), default=lambda: [])

        @register(s.pool.workers)
        def even(cfg, v):
            if v % 2:
                raise ValueError("must be even")
            return v

        @register(s.pool.tag)
        def dashed(cfg, v):
            return v.lower().replace(" ", "-")
        register(s.pool.tags.field)(dashed)
        case = {"stream": "chain", "route": route}
        res.case(stable(case), kind="chain")
        try:
            if route == "ctor":
                cfg = s(pool={"workers": 64, "tag": "  Blue Green "})
            else:
                cfg = s()
                if route == "attr":
                    cfg.pool.workers = 64
                    cfg.pool.tag = "  Blue Green "
                elif route == "dotted":
                    cfg["pool.workers"] = 64
                    cfg["pool.tag"] = "  Blue Green "
                elif route == "load_tree":
                    cfg.load_tree({"pool": {"workers": 64, "tag": "  Blue Green ", "tags": ["  Blue Green "]}})
                else:
                    cfg.pool.workers = 64
                    cfg.pool.tag = "  Blue Green "
                    cfg.pool.tags.append("  Blue Green ")
            got = [cfg.pool.workers, cfg.pool.tag] + list(cfg.pool.tags)
        except Exception as e:  # noqa
            got = "raised %s: %s" % (type(e).__name__, str(e)[:60])
        want = [8, "blue-green"] + (["blue-green"] if route in ("load_tree", "list-item") else [])
        if got != want:
            res.violate("C01:chain-result-not-held", "a field with several validators does not hold the result of the chain (each validator applied to the result of the one before)",
                        dict(case, held=repr(got), want=repr(want)))
    # (b)
    t = cc.Schema()
    t.ceiling = cc.IntField(default=10)
    t.quota = cc.DictField(cc.StringField(), cc.IntField(validator=lambda cfg, v: v if v <= cfg.ceiling else (_ for _ in ()).throw(ValueError("above the ceiling"))), default=dict)
    t.fallback.ceiling = cc.IntField(default=10)
    t.fallback.quota = cc.DictField(cc.StringField(), cc.IntField(validator=lambda cfg, v: v if v <= cfg.ceiling else (_ for _ in ()).throw(ValueError("above the ceiling"))), default=dict)
    for route in ("attr", "dotted", "nested", "update"):
        giver, taker = t(), t()
        giver.ceiling = 100
        giver.quota = {"disk": 80}
        giver.fallback.ceiling = 100
        giver.fallback.quota = {"mem": 64}
        case = {"stream": "owner", "route": route}
        res.case(stable(case), kind="owner")
        try:
            if route == "attr":
                taker.quota = giver.quota
            elif route == "dotted":
                taker["quota"] = giver.quota
            elif route == "nested":
                taker.fallback.quota = giver.fallback.quota
            else:
                taker.quota.update(giver.quota)
            accepted = True
        except Exception:  # noqa
            accepted = False
        held = dict(taker.fallback.quota if route == "nested" else taker.quota)
        if accepted and any(v > 10 for v in held.values()):
            res.violate("C01:holds-undeclared:foreign-proxy", "a typed dict taken from another configuration was stored without asking the receiver's validators: it holds a value the "
                        "receiver's own field refuses", dict(case, held=held, ceiling=10))
        elif accepted:
            (taker.fallback.quota if route == "nested" else taker.quota)["late"] = 5
            if "late" in (giver.fallback.quota if route == "nested" else giver.quota):
                res.violate("C01:holds-undeclared:foreign-proxy", "after a typed dict was handed over, an entry added through the receiver shows in the giver", case)
    # (c)
    for route in ("attr", "dotted", "load_tree", "override"):
        u = cc.Schema()
        u.tls.enabled = cc.FeatureFlagField(default=False)
        u.tls.port = cc.PortField(default=443)
        u.tls.min_version = cc.StringField(default="1.2", choices=["1.2", "1.3"])
        u.tls.alpn = cc.ListField(cc.StringField(max_len=4, transform_case="lower"), default=lambda: [])
        for key, bad, good, normal in (("port", 99999, "8443", 8443), ("min_version", "1.0", "1.3", "1.3"), ("alpn", ["toolong"], ["H2"], ["h2"])):
            for value, ok in ((bad, False), (good, True)):
                cfg = u()
                try:
                    if route == "attr":
                        setattr(cfg.tls, key, value)
                    elif route == "dotted":
                        cfg["tls." + key] = value
                    elif route == "load_tree":
                        cfg.load_tree({"tls": {key: value}})
                    else:
                        import argparse
                        if isinstance(value, list):
                            continue
                        cc.cmdline_args_override(cfg, argparse.Namespace(**{"tls." + key: value}))
                    accepted = True
                except Exception:  # noqa
                    accepted = False
                held = cfg.tls[key]
                case = {"stream": "flag-off", "route": route, "field": key, "value": repr(value)}
                res.case(stable(case), kind="flag-off")
                if accepted != ok or (ok and (list(held) if isinstance(held, list) else held) != normal) or (not ok and held == value):
                    res.violate("C01:holds-undeclared:flag-off", "a field of a section whose feature flag is off does not validate what is assigned to it (an invalid value is held, or a "
                                "valid one is not normalised)", dict(case, accepted=accepted, held=repr(held)))

def transforming_container_validator_stream(ctx, res):
    """A validator on a typed LIST or DICT field may hand back a new container (sorted, de-duplicated, filtered, `dict(value)`) —
    "each validator can transform the value". What the configuration then holds is still a typed container: its items satisfy the
    item field (they are normalised), and an in-place insertion made LATER (append, +=, item assignment, update, setdefault) is
    validated — an unacceptable item is refused and the held value never contains it. Through assignment, constructor keyword,
    load_tree, a document, the declared default, and inside a config type"""
    import cincoconfig as cc

    def declared(typed):
        s = cc.Schema()
        s.net.ports = cc.ListField(cc.PortField(), default=lambda: [8080, "22"], validator=lambda cfg, v: sorted(set(v)))
        s.net.names = cc.ListField(cc.StringField(transform_case="lower", min_len=2), default=lambda: [], validator=lambda cfg, v: [x for x in v if x != "skip"])
        s.net.same = cc.ListField(cc.IntField(min=0), default=lambda: [], validator=lambda cfg, v: v)
        s.net.limits = cc.DictField(cc.StringField(), cc.IntField(min=0), default=dict, validator=lambda cfg, v: dict(v))
        s.net.frozen = cc.ListField(cc.IntField(max=10), default=lambda: [], validator=lambda cfg, v: tuple(v))
        return cc.make_type(s, "C01Transforming") if typed else s
    bad_item = {"ports": "not a port", "names": "x", "same": -1, "frozen": 11}
    good = {"ports": [443, "80", 80], "names": ["Alpha", "skip", "BETA"], "same": ["1", 2], "frozen": [1, "2"]}
    held_want = {"ports": [80, 443], "names": ["alpha", "beta"], "same": [1, 2], "frozen": [1, 2]}
    for typed in (False, True):
        for route in ("assign", "dotted", "ctor", "load_tree", "json", "default"):
            S = declared(typed)
            try:
                if route == "assign":
                    cfg = S()
                    for k, v in good.items():
                        setattr(cfg.net, k, list(v))
                    cfg.net.limits = {"a": "1"}
                elif route == "dotted":
                    cfg = S()
                    for k, v in good.items():
                        cfg["net." + k] = list(v)
                    cfg["net.limits"] = {"a": "1"}
                elif route == "ctor":
                    cfg = S(net=dict({k: list(v) for k, v in good.items()}, limits={"a": "1"}))
                elif route == "load_tree":
                    cfg = S()
                    cfg.load_tree({"net": dict({k: list(v) for k, v in good.items()}, limits={"a": "1"})})
                elif route == "json":
                    cfg = S()
                    cfg.loads(json.dumps({"net": dict({k: list(v) for k, v in good.items()}, limits={"a": "1"})}).encode(), format="json")
                else:
                    cfg = S()
            except Exception as e:  # noqa
                res.violate("C01:transforming-validator", "a typed container field whose validator hands back a new container refused acceptable values: %s" % type(e).__name__,
                            {"stream": "transforming-container-validator", "config_type": typed, "route": route, "error": str(e)[:100]})
                continue
            for key in ("ports", "names", "same", "frozen", "limits"):
                case = {"stream": "transforming-container-validator", "config_type": typed, "route": route, "field": "net." + key}
                res.case(stable(case), kind="transforming-container-validator")
                held = cfg.net[key]
                if key == "limits":
                    if route != "default" and dict(held) != {"a": 1}:
                        res.violate("C01:transforming-validator", "a typed dict whose validator hands back a new dict does not hold the normalised entries", dict(case, held=repr(held)))
                    for label, do in (("d[k] = bad", lambda: held.__setitem__("b", -5)), ("update(bad)", lambda: held.update({"c": "x"})), ("setdefault(k, bad)", lambda: held.setdefault("e", -1))):
                        try:
                            do()
                            refused = False
                        except Exception:  # noqa
                            refused = True
                        if not refused or any(not isinstance(v, int) or v < 0 for v in cfg.net.limits.values()):
                            res.violate("C01:invalid-value-held", "after a validator handed back a new dict, a later in-place insertion of an unacceptable value was not refused: "
                                        "the configuration holds a value its field rejects", dict(case, op=label, held=repr(dict(cfg.net.limits))))
                    continue
                if route == "default":
                    want = [8080, 22] if key == "ports" else []       # a declared default is normalised item by item; the field's validator is for values that are set
                else:
                    want = held_want[key]
                if list(held) != want:
                    res.violate("C01:transforming-validator", "a typed list whose validator hands back a new list does not hold the normalised items of that list", dict(case, held=repr(held), want=want))
                for label, do in (("append(bad)", lambda: held.append(bad_item[key])), ("+= [bad]", lambda: held.__iadd__([bad_item[key]])), ("insert(0, bad)", lambda: held.insert(0, bad_item[key])),
                                  ("l[0:0] = [bad]", lambda: held.__setitem__(slice(0, 0), [bad_item[key]]))):
                    try:
                        do()
                        refused = False
                    except Exception:  # noqa
                        refused = True
                    now = list(cfg.net[key])
                    if not refused or bad_item[key] in now:
                        res.violate("C01:invalid-value-held", "after a validator handed back a new list, a later in-place insertion of an unacceptable item was not refused: "
                                    "the configuration holds a value its field rejects", dict(case, op=label, held=repr(now)))
                        break
            try:
                cfg.validate()
            except Exception as e:  # noqa
                res.violate("C01:invalid-value-held", "validate() fails on a configuration reached through accepted / refused operations only",
                            {"stream": "transforming-container-validator", "config_type": typed, "route": route, "error": str(e)[:100]})

def edge_values_stream(ctx, res):
    """edges of the leaf fields' domains, enumerated: (a) host names longer than a NetBIOS name that contain a letter which only
    FOLDS into ASCII (K U+212A, ſ U+017F, ı U+0131, İ U+0130) — whatever is held must be a DNS name; (b) a file name that is a
    symbolic link to nothing, given to a field that declares `exists=True` / 'file' / 'dir' (with and without start directory,
    as attribute, list item, document entry, constructor keyword) — whatever is held must exist; (c) whole numbers given as text
    above 2**53 next to a bound — what is held is the exact number and within the bound.  Judged by the declarative reading
    `F.satisfies` of the declaration, not by the library's validators"""
    import os
    import cincoconfig as cc
    tmp, keypath = P.setup(ctx)
    d = os.path.join(tmp, "edge-links")
    os.makedirs(d, exist_ok=True)
    dangling = os.path.join(d, "current.pem")
    if not os.path.islink(dangling):
        os.symlink(os.path.join(d, "no-such-target.pem"), dangling)
    good = os.path.join(d, "real.pem")
    with open(good, "w") as fh:
        fh.write("x")
    live = os.path.join(d, "live.pem")
    if not os.path.islink(live):
        os.symlink(good, live)
    hosts = ["\u212a8s-master-01.example.com", "node-\u017ftorage-01.example.com", "ma\u0131l-relay-primary.example.org", "\u0130stanbul-gateway.example.net",
             "plain-host-name-01.example.com", "UPPER-CASE-HOST.EXAMPLE.COM"]
    decls = []
    for name in hosts:
        decls.append(({"k": "hostname"}, lambda: cc.HostnameField(), name))
        decls.append(({"k": "hostname", "allow_ipv4": False}, lambda: cc.HostnameField(allow_ipv4=False), name))
    for ex in (True, "file", "dir"):
        for sd in (None, d):
            for name in (dangling, "current.pem", live, "live.pem", good):
                if sd is None and not os.path.isabs(name):
                    continue
                decls.append(({"k": "filename", "exists": ex, "startdir": sd}, (lambda ex=ex, sd=sd: cc.FilenameField(exists=ex, startdir=sd)), name))
    for text, lo, hi in (("9007199254740993", None, None), ("9007199254740993", -2 ** 53, 2 ** 53), ("18446744073709551615", 0, 2 ** 64 - 1), ("-9007199254740993", -2 ** 53, None)):
        decls.append(({"k": "int", "min": lo, "max": hi}, (lambda lo=lo, hi=hi: cc.IntField(min=lo, max=hi)), text))
    for spec, mk, value in decls:
        for route in ("attribute", "list item", "load_tree", "constructor"):
            s = cc.Schema()
            s.sec.one = mk()
            s.sec.many = cc.ListField(mk(), default=lambda: [])
            case = {"stream": "edge-values", "field": {k: (v if not isinstance(v, str) or "/" not in v else "<dir>") for k, v in spec.items()},
                    "value": value if "/" not in str(value) else os.path.basename(value) + (" (absolute)" if os.path.isabs(value) else ""), "route": route}
            res.case(stable(case), kind="edge-values:" + spec["k"])
            try:
                if route == "attribute":
                    cfg = s()
                    cfg.sec.one = value
                elif route == "list item":
                    cfg = s()
                    cfg.sec.many.append(value)
                elif route == "load_tree":
                    cfg = s()
                    cfg.load_tree({"sec": {"one": value, "many": [value]}})
                else:
                    cfg = s(sec={"one": value})
            except Exception:  # noqa
                continue
            for h in [cfg.sec.one] + list(cfg.sec.many):
                if h is None:
                    continue
                sat = F.satisfies(spec, h)
                if spec["k"] == "int" and sat is not False:
                    sat = (h == int(value)) and (spec["min"] is None or h >= spec["min"]) and (spec["max"] is None or h <= spec["max"])
                if sat is False:
                    res.violate("C01:held-violates-declaration:edge", "a value accepted at an edge of the field's domain is held although it does not satisfy the declaration",
                                dict(case, held=repr(h)))
                    break

def run(ctx, n_quick=250, n_thorough=8000):
    res = Result()
    guard(res, "C01", edge_values_stream, ctx, res)
    guard(res, "C01", transforming_container_validator_stream, ctx, res)
    guard(res, "C01", chain_and_owner_stream, ctx, res)

    def orc(res, case, sk, ops, impl, live, tmp, keypath):
        oracle(res, case, sk, ops, impl, live, tmp, keypath)
        oracle_stepwise(res, case, sk, ops, tmp, keypath)
    guard(res, "C01", lambda: P.run_stream(ctx, res, "C01", ctx.n(n_quick, n_thorough), orc))
    guard(res, "C01", proxy_stream, ctx, res, ctx.n(150, 5000))
    guard(res, "C01", boundary_stream, ctx, res, ctx.n(120, 3000))
    guard(res, "C01", fixed_stream, ctx, res)
    guard(res, "C01", dynamic_keywords_stream, ctx, res)
    return res


def search(ctx, broken, res0):
    return run(ctx, 1500, 20000)


def replay(ctx, payload):
    return run(ctx)
