"""Translator: /repo source -> lean/Cinco/Cinco/Generated/*.lean, rewritten on every run (only when the
content changed, so that Lake stays incremental).  Deliberately dumb: it reads tables, method sets and
straight-line effect sequences with `ast`, and reports syntax it does not know (the table is then left as last read and the check treats its obligations as not established)."""
import ast
import os
import sys

HERE = os.path.dirname(os.path.abspath(__file__))
sys.path.insert(0, HERE)
import lean  # noqa: E402

GEN = os.path.join(lean.LEANDIR, "Cinco", "Generated")


class Unknown(lean.InfraError):
    pass


def _write(name, text):
    os.makedirs(GEN, exist_ok=True)
    p = os.path.join(GEN, name)
    old = open(p).read() if os.path.exists(p) else None
    if old != text:
        tmp = p + ".tmp%d" % os.getpid()
        with open(tmp, "w") as f:
            f.write(text)
        os.replace(tmp, p)
        return True
    return False


def _parse(repo, rel):
    p = os.path.join(repo, "cincoconfig", rel)
    try:
        return ast.parse(open(p, encoding="utf-8").read(), p)
    except (OSError, SyntaxError) as e:
        raise Unknown("cannot parse %s: %s" % (p, e))


def _class(mod, name):
    for n in mod.body:
        if isinstance(n, ast.ClassDef) and n.name == name:
            return n
    raise Unknown("class %s not found" % name)


def _class_assign(cls, name):
    for n in cls.body:
        if isinstance(n, ast.Assign) and len(n.targets) == 1 and isinstance(n.targets[0], ast.Name) and n.targets[0].id == name:
            return n.value
        if isinstance(n, ast.AnnAssign) and isinstance(n.target, ast.Name) and n.target.id == name and n.value is not None:
            return n.value
    raise Unknown("%s.%s not found" % (cls.name, name))


def _str_tuple(node, what):
    if not isinstance(node, (ast.Tuple, ast.List)) or not all(isinstance(e, ast.Constant) and isinstance(e.value, str) for e in node.elts):
        raise Unknown("%s is not a literal tuple of strings" % what)
    return [e.value for e in node.elts]


def lstr(s):
    """Lean string literal"""
    out = []
    for c in s:
        if c == '"' or c == "\\":
            out.append("\\" + c)
        elif c == "\n":
            out.append("\\n")
        elif 0x20 <= ord(c) < 0x7F:
            out.append(c)
        else:
            out.append("\\u{%x}" % ord(c))
    return '"' + "".join(out) + '"'


def llist(xs):
    return "[" + ", ".join(xs) + "]"


def methods_of(cls):
    return [n.name for n in cls.body if isinstance(n, (ast.FunctionDef, ast.AsyncFunctionDef))]


def tables(repo):
    bool_mod = _parse(repo, "fields/bool_field.py")
    bf = _class(bool_mod, "BoolField")
    true_v = _str_tuple(_class_assign(bf, "TRUE_VALUES"), "BoolField.TRUE_VALUES")
    false_v = _str_tuple(_class_assign(bf, "FALSE_VALUES"), "BoolField.FALSE_VALUES")

    bytes_mod = _parse(repo, "fields/bytes_field.py")
    encs = _str_tuple(_class_assign(_class(bytes_mod, "BytesField"), "ENCODINGS"), "BytesField.ENCODINGS")

    sec_mod = _parse(repo, "fields/secure_field.py")
    algs_node = _class_assign(_class(sec_mod, "ChallengeField"), "ALGORITHMS")
    if not isinstance(algs_node, ast.Dict):
        raise Unknown("ChallengeField.ALGORITHMS is not a dict literal")
    algs = []
    import hashlib
    for k, v in zip(algs_node.keys, algs_node.values):
        if not (isinstance(k, ast.Constant) and isinstance(k.value, str) and isinstance(v, ast.Attribute)
                and isinstance(v.value, ast.Name) and v.value.id == "hashlib"):
            raise Unknown("ChallengeField.ALGORITHMS entry not of the form 'name': hashlib.name")
        algs.append((k.value, v.attr, hashlib.new(v.attr).digest_size))

    fm = _parse(repo, "formats/__init__.py")
    formats = []
    for n in ast.walk(fm):
        # FORMATS: ... = [("json", JsonConfigFormat), ...]   and   FORMATS.append(("yaml", YamlConfigFormat))
        if isinstance(n, (ast.Assign, ast.AnnAssign)):
            tgt = n.targets[0] if isinstance(n, ast.Assign) else n.target
            if isinstance(tgt, ast.Name) and tgt.id == "FORMATS" and isinstance(n.value, ast.List):
                for e in n.value.elts:
                    formats.append((e.elts[0].value, e.elts[1].id))
        if isinstance(n, ast.Call) and isinstance(n.func, ast.Attribute) and n.func.attr == "append" \
                and isinstance(n.func.value, ast.Name) and n.func.value.id == "FORMATS":
            e = n.args[0]
            formats.append((e.elts[0].value, e.elts[1].id))
    if not formats:
        raise Unknown("FORMATS not found")

    # Schema._validate ignore_types
    core_mod = _parse(repo, "core.py")
    ignore = None
    for n in ast.walk(_class(core_mod, "Schema")):
        if isinstance(n, ast.Assign) and isinstance(n.targets[0], ast.Name) and n.targets[0].id == "ignore_types":
            ignore = [e.id for e in n.value.elts]
    if ignore is None:
        raise Unknown("Schema._validate ignore_types not found")

    # PortField defaults
    net_mod = _parse(repo, "fields/net_field.py")
    port = {}
    for n in ast.walk(_class(net_mod, "PortField")):
        if isinstance(n, ast.Call) and isinstance(n.func, ast.Attribute) and n.func.attr == "setdefault":
            port[n.args[0].value] = n.args[1].value
    if set(port) != {"min", "max"}:
        raise Unknown("PortField defaults not found")
    host = _class(net_mod, "HostnameField")

    def regex_src(name):
        v = _class_assign(host, name)
        if not (isinstance(v, ast.Call) and ast.unparse(v.func) == "re.compile" and len(v.args) == 1 and not v.keywords and isinstance(v.args[0], ast.Constant)
                and isinstance(v.args[0].value, str)):
            # a second argument or a keyword is a FLAG (re.IGNORECASE makes [a-z] match K, ſ, ı, İ too): not the pattern the model reads
            raise Unknown("HostnameField.%s is not re.compile(<one literal pattern, no flags>)" % name)
        if "(?" in v.args[0].value:
            raise Unknown("HostnameField.%s uses an inline flag or group extension" % name)
        return v.args[0].value

    host_re, nb_re = regex_src("HOSTNAME_REGEX"), regex_src("NETBIOS_REGEX")

    t = ["/- GENERATED by harness/extract.py from /repo on every run — do not edit. -/", "namespace Cinco.Generated", ""]
    t.append("/-- BoolField.TRUE_VALUES (cincoconfig/fields/bool_field.py) -/")
    t.append("def trueValues : List String := " + llist([lstr(x) for x in true_v]))
    t.append("/-- BoolField.FALSE_VALUES -/")
    t.append("def falseValues : List String := " + llist([lstr(x) for x in false_v]))
    t.append("/-- BytesField.ENCODINGS -/")
    t.append("def bytesEncodings : List String := " + llist([lstr(x) for x in encs]))
    t.append("/-- ChallengeField.ALGORITHMS: (name, hashlib constructor, digest size read from hashlib at extraction time) -/")
    t.append("def challengeAlgorithms : List (String × String × Nat) := " +
             llist(["(%s, %s, %d)" % (lstr(a), lstr(b), c) for a, b, c in algs]))
    t.append("/-- cincoconfig.formats.FORMATS: (registered name, class) in registration order -/")
    t.append("def formats : List (String × String) := " + llist(["(%s, %s)" % (lstr(a), lstr(b)) for a, b in formats]))
    t.append("/-- the `ignore_types` tuple of Schema._validate -/")
    t.append("def validateIgnoreTypes : List String := " + llist([lstr(x) for x in ignore]))
    t.append("def portMin : Int := %d" % port["min"])
    t.append("def portMax : Int := %d" % port["max"])
    t.append("/-- HostnameField.HOSTNAME_REGEX / NETBIOS_REGEX source text -/")
    t.append("def hostnameRegexSrc : String := " + lstr(host_re))
    t.append("def netbiosRegexSrc : String := " + lstr(nb_re))
    t.append("")
    t.append("end Cinco.Generated")
    changed = _write("Tables.lean", "\n".join(t) + "\n")
    import regex
    try:
        h_ast, n_ast = regex.to_ast(host_re), regex.to_ast(nb_re)
    except Exception as e:  # noqa
        raise Unknown("hostname regexes use syntax outside the modelled regex fragment: %s" % e)
    r = ["import Cinco.Basic.Regex", "/- GENERATED by harness/extract.py from /repo on every run — do not edit. -/",
         "namespace Cinco.Generated", "open Cinco.Regex", "",
         "/-- HostnameField.HOSTNAME_REGEX = %s -/" % host_re.replace("-/", "- /"),
         "def hostnameRe : Re := " + regex.to_lean(h_ast),
         "/-- HostnameField.NETBIOS_REGEX = %s -/" % nb_re.replace("-/", "- /"),
         "def netbiosRe : Re := " + regex.to_lean(n_ast), "", "end Cinco.Generated"]
    _write("Regexes.lean", "\n".join(r) + "\n")
    return {"Tables.lean": {"changed": changed, "trueValues": true_v, "falseValues": false_v, "formats": [f[0] for f in formats],
                            "algorithms": [a[0] for a in algs]}}


def overrides(repo):
    lm = _parse(repo, "fields/list_field.py")
    dm = _parse(repo, "fields/dict_field.py")
    lp = methods_of(_class(lm, "ListProxy"))
    dp = methods_of(_class(dm, "DictProxy"))
    t = ["/- GENERATED by harness/extract.py from /repo on every run — do not edit. -/", "namespace Cinco.Generated", "",
         "/-- methods defined in the body of `class ListProxy` (cincoconfig/fields/list_field.py) -/",
         "def listProxyMethods : List String := " + llist([lstr(x) for x in lp]),
         "/-- methods defined in the body of `class DictProxy` (cincoconfig/fields/dict_field.py) -/",
         "def dictProxyMethods : List String := " + llist([lstr(x) for x in dp]), "", "end Cinco.Generated"]
    changed = _write("Overrides.lean", "\n".join(t) + "\n")
    return {"Overrides.lean": {"changed": changed, "ListProxy": lp, "DictProxy": dp}}


# ------------------------------------------------------------------------------------------------ effects

def _dotted(node):
    if isinstance(node, ast.Name):
        return node.id
    if isinstance(node, ast.Attribute):
        b = _dotted(node.value)
        return (b + "." if b else "?.") + node.attr
    if isinstance(node, ast.Call):
        return _dotted(node.func) + "()"
    return "?"


_FILE_CHANGING = {"os.remove", "os.unlink", "os.rename", "os.replace", "os.truncate", "os.rmdir", "os.removedirs", "shutil.rmtree", "shutil.move", "shutil.copy",
                  "shutil.copyfile", "shutil.copy2", "os.open", "os.write", "os.ftruncate", "os.link", "os.symlink"}


def _calls_in(expr, out, handle=None):
    """calls of an expression in evaluation order (arguments before the call itself)"""
    for child in ast.iter_child_nodes(expr):
        _calls_in(child, out, handle)
    if isinstance(expr, ast.Call):
        name = _dotted(expr.func)
        if name == "open":
            out.append(("unknown", "open() outside a with statement"))
        elif handle and name == handle + ".write":
            arg = expr.args[0].id if expr.args and isinstance(expr.args[0], ast.Name) else "?"
            out.append(("write", arg))
        elif handle and name == handle + ".read":
            out.append(("read", ""))
        elif name.endswith(".write") or name.endswith(".writelines") or name.endswith(".truncate"):
            out.append(("unknown", "write through " + name))
        elif name in _FILE_CHANGING or name.split(".")[-1] in ("unlink", "rmtree", "rename", "replace", "write_bytes", "write_text", "touch", "rmdir", "copyfile", "move"):
            out.append(("unknown", "changes a file: " + name))   # removing / renaming / replacing a file is not in the effect model
        else:
            out.append(("call", name))


def _effects(stmts, handle=None):
    out = []
    for st in stmts:
        if isinstance(st, ast.Expr) and isinstance(st.value, ast.Constant) and isinstance(st.value.value, str):
            continue                                            # docstring
        if isinstance(st, (ast.Assign, ast.AnnAssign, ast.Expr, ast.Return, ast.AugAssign)):
            val = st.value
            if val is None:
                continue
            calls = []
            _calls_in(val, calls, handle)
            tgt = ""
            if isinstance(st, ast.Assign) and len(st.targets) == 1 and isinstance(st.targets[0], ast.Name):
                tgt = st.targets[0].id
            for i, (k, n) in enumerate(calls):
                if k == "call":
                    out.append(("call", tgt if i == len(calls) - 1 else "", n))
                else:
                    out.append((k, n))
        elif isinstance(st, ast.With) and len(st.items) == 1 and isinstance(st.items[0].context_expr, ast.Call) \
                and _dotted(st.items[0].context_expr.func) == "open":
            call = st.items[0].context_expr
            mode = call.args[1].value if len(call.args) > 1 and isinstance(call.args[1], ast.Constant) else "r"
            pre = []
            for a in call.args:
                _calls_in(a, pre, handle)
            out.extend(("call", "", n) if k == "call" else (k, n) for k, n in pre)
            var = st.items[0].optional_vars.id if isinstance(st.items[0].optional_vars, ast.Name) else None
            if "w" in mode or "x" in mode:
                out.append(("openW", _dotted(call.args[0]) if call.args else "?"))       # the model's write-open truncates: only these modes do
            elif "a" in mode or "+" in mode:
                out.append(("unknown", "open mode %s (writes without truncating)" % mode))
            else:
                out.append(("openR", _dotted(call.args[0]) if call.args else "?"))
            out.extend(_effects(st.body, var))
            out.append(("close", ""))
        elif isinstance(st, ast.If):
            calls = []
            _calls_in(st.test, calls, handle)
            out.extend(("call", "", n) if k == "call" else (k, n) for k, n in calls)
            out.extend(_effects(st.body, handle))               # flattened: both branches, in source order
            out.extend(_effects(st.orelse, handle))
        elif isinstance(st, ast.Pass):
            continue
        elif isinstance(st, ast.Try) and not st.finalbody:
            out.extend(_effects(st.body, handle))               # flattened like a branch: the body, then every handler, in source order
            for h in st.handlers:
                out.extend(_effects(h.body, handle))
            out.extend(_effects(st.orelse, handle))
        elif isinstance(st, ast.Raise):
            calls = []
            if st.exc is not None:
                _calls_in(st.exc, calls, handle)                # building the exception; leaving the function touches nothing
            out.extend(("call", "", n) if k == "call" else (k, n) for k, n in calls)
        else:
            out.append(("unknown", type(st).__name__))
    return out


def _method(cls, name):
    for n in cls.body:
        if isinstance(n, ast.FunctionDef) and n.name == name:
            return n
    raise Unknown("%s.%s not found" % (cls.name, name))


def _lean_eff(e):
    if e[0] == "call":
        return ".call %s %s" % (lstr(e[1]), lstr(e[2]))
    if e[0] in ("openW", "openR"):
        return ".%s %s" % (e[0], lstr(e[1]))
    if e[0] == "write":
        return ".write %s" % lstr(e[1])
    if e[0] == "read":
        return ".read"
    if e[0] == "close":
        return ".close"
    return ".unknown %s" % lstr(e[1])


def effects(repo):
    core_mod = _parse(repo, "core.py")
    cfg = _class(core_mod, "Config")
    progs = {}
    for m in ("save", "dumps", "load", "loads"):
        progs[m] = _effects(_method(cfg, m).body)
    t = ["import Cinco.TreeIO.Effects", "/- GENERATED by harness/extract.py from /repo on every run — do not edit. -/",
         "namespace Cinco.Generated", "open Cinco.Effects", ""]
    for m, effs in progs.items():
        t.append("/-- statement order of `Config.%s` (cincoconfig/core.py) as an effect sequence -/" % m)
        t.append("def %sProg : List Eff := [%s]" % (m, ", ".join(_lean_eff(e) for e in effs)))
    t += ["", "end Cinco.Generated"]
    changed = _write("Effects.lean", "\n".join(t) + "\n")
    return {"Effects.lean": {"changed": changed, "save": [" ".join(x for x in e if x) for e in progs["save"]],
                             "loads": [" ".join(x for x in e if x) for e in progs["loads"]]}}


_MUTATORS = {"append", "pop", "update", "clear", "setdefault", "extend", "insert", "remove", "popitem",
             "sort", "reverse", "add", "discard", "__setattr__", "__setitem__", "__delitem__", "__delattr__"}


def _fn_locals(fn):
    params = {a.arg for a in fn.args.posonlyargs + fn.args.args + fn.args.kwonlyargs}
    if fn.args.vararg:
        params.add(fn.args.vararg.arg)
    if fn.args.kwarg:
        params.add(fn.args.kwarg.arg)
    fresh = set()
    for n in ast.walk(fn):
        # a name is "fresh" when every binding of it in the function is a new object: a literal container,
        # a call result, or a tuple-unpacked call result; parameters and aliases of them are not
        if isinstance(n, (ast.Assign, ast.AnnAssign)):
            targets = n.targets if isinstance(n, ast.Assign) else [n.target]
            val = n.value
            for t in targets:
                names = [t] if isinstance(t, ast.Name) else (list(t.elts) if isinstance(t, (ast.Tuple, ast.List)) else [])
                for nm in names:
                    if isinstance(nm, ast.Name) and isinstance(val, (ast.List, ast.Dict, ast.Set, ast.ListComp, ast.DictComp, ast.Call, ast.BinOp, ast.Constant, ast.JoinedStr)):
                        fresh.add(nm.id)
    return params, fresh - params


def _base_name(node):
    while isinstance(node, (ast.Attribute, ast.Subscript)):
        node = node.value
    return node.id if isinstance(node, ast.Name) else None


def stub_effects(repo):
    """Observable side effects written in cincoconfig/stubs.py: output calls and writes through anything that
    is not a fresh local of the function (parameters are the schema / configuration / fields)."""
    mod = _parse(repo, "stubs.py")
    effs = []
    fns = [n for n in ast.walk(mod) if isinstance(n, (ast.FunctionDef, ast.AsyncFunctionDef))]
    if not any(f.name == "generate_stub" for f in fns):
        raise Unknown("stubs.generate_stub not found")
    for fn in fns:
        params, fresh = _fn_locals(fn)
        for n in ast.walk(fn):
            if isinstance(n, ast.Call):
                f = n.func
                if isinstance(f, ast.Name) and f.id in ("print", "pprint", "input", "breakpoint"):
                    effs.append(("stdout", "%s:%s" % (fn.name, f.id)))
                elif isinstance(f, ast.Name) and f.id in ("setattr", "delattr", "open", "exec", "eval"):
                    effs.append(("schemaWrite", "%s:%s" % (fn.name, f.id)))
                elif isinstance(f, ast.Attribute) and f.attr in ("write", "writelines") :
                    effs.append(("stdout", "%s:.%s" % (fn.name, f.attr)))
                elif isinstance(f, ast.Attribute) and _base_name(f) in ("logging", "logger", "log", "warnings", "sys", "os"):
                    effs.append(("stdout", "%s:%s.%s" % (fn.name, _base_name(f), f.attr)))
                elif isinstance(f, ast.Attribute) and f.attr in _MUTATORS:
                    b = _base_name(f.value)
                    if not (isinstance(f.value, ast.Name) and b in fresh):
                        effs.append(("schemaWrite", "%s:%s.%s" % (fn.name, b, f.attr)))
            elif isinstance(n, (ast.Assign, ast.AugAssign, ast.AnnAssign, ast.Delete)):
                targets = n.targets if isinstance(n, (ast.Assign, ast.Delete)) else [n.target]
                for t in targets:
                    for tt in (t.elts if isinstance(t, (ast.Tuple, ast.List)) else [t]):
                        if isinstance(tt, (ast.Attribute, ast.Subscript)):
                            b = _base_name(tt)
                            if not (isinstance(tt.value, ast.Name) and b in fresh):
                                effs.append(("schemaWrite", "%s:%s" % (fn.name, ast.unparse(tt))))
            elif isinstance(n, (ast.Global, ast.Nonlocal)):
                effs.append(("schemaWrite", "%s:global" % fn.name))
    t = ["import Cinco.Stub.Gen", "/- GENERATED by harness/extract.py from /repo on every run — do not edit. -/",
         "namespace Cinco.Generated", "open Cinco.Stub", "",
         "/-- output calls and writes through non-local objects found in cincoconfig/stubs.py -/",
         "def stubEffects : List Effect := [%s]" % ", ".join(".%s %s" % (k, lstr(w)) for k, w in effs),
         "", "end Cinco.Generated"]
    changed = _write("StubEffects.lean", "\n".join(t) + "\n")
    return {"StubEffects.lean": {"changed": changed, "effects": ["%s %s" % e for e in effs]}}


def _has_call(node, names):
    for n in ast.walk(node):
        if isinstance(n, ast.Call):
            f = n.func
            nm = f.id if isinstance(f, ast.Name) else (f.attr if isinstance(f, ast.Attribute) else None)
            if nm in names:
                return True
    return False


def _benign_guard(test):
    """a test that only asks what kind of value the declared default is: isinstance(<name>, ...), <name> is (not) None, and
    conjunctions / disjunctions of those. Any other condition (callable(...), an option of the field, the environment) makes the
    copy below it conditional."""
    if isinstance(test, ast.BoolOp):
        return all(_benign_guard(v) for v in test.values)
    if isinstance(test, ast.Call) and isinstance(test.func, ast.Name) and test.func.id == "isinstance" and test.args and isinstance(test.args[0], ast.Name):
        return True
    if isinstance(test, ast.Compare) and len(test.ops) == 1 and isinstance(test.ops[0], (ast.Is, ast.IsNot)) and isinstance(test.left, ast.Name) \
            and isinstance(test.comparators[0], ast.Constant) and test.comparators[0].value is None:
        return True
    return False


def _unconditional_copy(fn):
    """a deepcopy call that is reached whatever the field's environment mapping is: not inside (the body or the else-branch of) an
    `if` whose test looks at `env` / the environment"""
    def mentions_env(test):
        return any((isinstance(n, ast.Attribute) and "env" in n.attr) or (isinstance(n, ast.Name) and "env" in n.id) for n in ast.walk(test))

    def walk(stmts, tainted):
        for st in stmts:
            if isinstance(st, ast.If):
                t = tainted or mentions_env(st.test) or not _benign_guard(st.test)
                if walk(st.body, t) or walk(st.orelse, t):
                    return True
            elif isinstance(st, (ast.For, ast.While, ast.With, ast.Try)):
                for part in (getattr(st, "body", []), getattr(st, "orelse", []), getattr(st, "finalbody", [])):
                    if walk(part, tainted):
                        return True
                for h in getattr(st, "handlers", []):
                    if walk(h.body, tainted):
                        return True
            elif not tainted and _has_call(st, ("deepcopy",)):
                return True
        return False
    return walk(fn.body, False)


def default_disciplines(repo):
    """How each `__setdefault__` hands a mutable default to a new configuration, read off the source:
    alias (the default object itself), shallow (list()/dict() of it), proxy (a validating proxy built from it: new top level,
    items through the item field), deep (copy.deepcopy)."""
    core_mod = _parse(repo, "core.py")
    fld = _method(_class(core_mod, "Field"), "__setdefault__")
    out = {"field": "deep" if _unconditional_copy(fld) else "alias"}
    for modname, cls, proxy, plain, tag in (("fields/list_field.py", "ListField", "ListProxy", "list", "list"),
                                            ("fields/dict_field.py", "DictField", "DictProxy", "dict", "dict")):
        m = _method(_class(_parse(repo, modname), cls), "__setdefault__")
        # a deepcopy that is not nested under the typed/untyped decision covers both branches
        top_deep = False
        for st in m.body:
            if isinstance(st, ast.If):
                for inner in st.body:
                    if not isinstance(inner, ast.If) and _has_call(inner, ("deepcopy",)) and _benign_guard(st.test):
                        top_deep = True
            elif _has_call(st, ("deepcopy",)):
                top_deep = True
        if top_deep:
            out[tag + "_typed"] = out[tag + "_untyped"] = "deep"
            continue
        if not _has_call(m, (proxy,)):
            raise Unknown("%s.__setdefault__: no %s construction found" % (cls, proxy))
        out[tag + "_typed"] = "proxy"
        out[tag + "_untyped"] = "deep" if _has_call(m, ("deepcopy",)) else ("shallow" if _has_call(m, (plain,)) else "alias")
    return out


def defaults_table(repo):
    t = default_disciplines(repo)
    lines = ["/- GENERATED by harness/extract.py from /repo on every run — do not edit. -/", "namespace Cinco.Generated", "",
             "/-- how each `__setdefault__` hands a mutable default to a new configuration (read off the source) -/",
             "def defaultDisc : List (String × String) := [%s]" % ", ".join("(%s, %s)" % (lstr(k), lstr(v)) for k, v in sorted(t.items())),
             "", "end Cinco.Generated"]
    changed = _write("Defaults.lean", "\n".join(lines) + "\n")
    return {"Defaults.lean": {"changed": changed, "table": t}}


def proxy_fast_paths(repo):
    """Every place where a list / dict proxy takes the items of another proxy without validating them (an `if` whose test asks
    `isinstance(x, ListProxy|DictProxy)`, outside `__eq__`), and whether that test also requires the other proxy to belong to the
    same configuration (`x.cfg is …`, or `_is_compatible_proxy(x)` whose body compares the two `cfg`s by identity)."""
    out = []
    for modname, classes in (("fields/list_field.py", ("ListProxy", "ListField")), ("fields/dict_field.py", ("DictProxy", "DictField"))):
        mod = _parse(repo, modname)

        def cfg_identity(node):
            for n in ast.walk(node):
                if isinstance(n, ast.Compare) and len(n.ops) == 1 and isinstance(n.ops[0], ast.Is):
                    sides = [n.left] + list(n.comparators)
                    if any(isinstance(x, ast.Attribute) and x.attr == "cfg" for x in sides):
                        return True
            return False

        compat = {}
        for cname in classes:
            try:
                cls = _class(mod, cname)
            except Unknown:
                continue
            for node in cls.body:
                if isinstance(node, ast.FunctionDef) and node.name == "_is_compatible_proxy":
                    compat[cname] = cfg_identity(node)
        for cname in classes:
            cls = _class(mod, cname)          # Unknown if a class of the anchored API is gone: the obligation is then not established
            for fn in cls.body:
                if not isinstance(fn, ast.FunctionDef) or fn.name in ("__eq__", "__ne__", "_is_compatible_proxy"):
                    continue
                n_here = 0
                for node in ast.walk(fn):
                    if not isinstance(node, (ast.If, ast.IfExp)):
                        continue
                    test = node.test
                    asks = any(isinstance(c, ast.Call) and isinstance(c.func, ast.Name) and c.func.id == "isinstance" and len(c.args) == 2
                               and any(isinstance(a, ast.Name) and a.id in ("ListProxy", "DictProxy") for a in ast.walk(c.args[1]))
                               for c in ast.walk(test))
                    if not asks:
                        continue
                    guarded = cfg_identity(test) or any(isinstance(c, ast.Call) and isinstance(c.func, ast.Attribute) and c.func.attr == "_is_compatible_proxy"
                                                        and compat.get(cname, False) for c in ast.walk(test))
                    n_here += 1
                    out.append(("%s.%s#%d" % (cname, fn.name, n_here), guarded))
    return out


def fast_paths_table(repo):
    t = proxy_fast_paths(repo)
    lines = ["/- GENERATED by harness/extract.py from /repo on every run — do not edit. -/", "namespace Cinco.Generated", "",
             "/-- every unvalidated fast path of the list / dict proxies for another proxy's items, and whether its test requires the same",
             "    owning configuration (read off the source) -/",
             "def proxyFastPaths : List (String × Bool) := [%s]" % ", ".join("(%s, %s)" % (lstr(k), "true" if v else "false") for k, v in t),
             "", "end Cinco.Generated"]
    changed = _write("FastPaths.lean", "\n".join(lines) + "\n")
    return {"FastPaths.lean": {"changed": changed, "table": t}}


def validator_registration(repo):
    """What `support.validator`'s inner function does with a Field that already has a validator, read off the source:
    "chain"   — the previous validator is kept and composed: somewhere in the Field branch a function is defined (def or lambda) whose
                body calls BOTH the new function and the previous validator, the one on the result of the other, and that function is
                what is assigned to `field.validator` when there was a previous one;
    "replace" — `field.validator = func` unconditionally (the behaviour before F41)."""
    mod = _parse(repo, "support.py")
    outer = next((n for n in mod.body if isinstance(n, ast.FunctionDef) and n.name == "validator"), None)
    if outer is None:
        raise Unknown("support.validator not found")
    inner = next((n for n in outer.body if isinstance(n, ast.FunctionDef)), None)
    if inner is None or not inner.args.args:
        raise Unknown("support.validator: no inner registration function")
    func = inner.args.args[0].arg
    branch = None
    for st in inner.body:
        if isinstance(st, ast.If) and any(isinstance(a, ast.Name) and a.id == "Field" for a in ast.walk(st.test)):
            branch = st.body
            break
    if branch is None:
        raise Unknown("support.validator: no branch for Field")
    assigns = [n for st in branch for n in ast.walk(st) if isinstance(n, ast.Assign) and any(isinstance(t, ast.Attribute) and t.attr == "validator" for t in n.targets)]
    if not assigns:
        raise Unknown("support.validator: the Field branch never assigns field.validator")
    prev_names = {t.id for st in branch for n in ast.walk(st) if isinstance(n, ast.Assign) and isinstance(n.value, ast.Attribute) and n.value.attr == "validator"
                  for t in n.targets if isinstance(t, ast.Name)}

    def is_prev(node):
        return (isinstance(node, ast.Name) and node.id in prev_names) or (isinstance(node, ast.Attribute) and node.attr == "validator")

    def composes(fn_body):
        """new(…, previous(…)) somewhere in the body"""
        for c in ast.walk(fn_body):
            if isinstance(c, ast.Call) and isinstance(c.func, ast.Name) and c.func.id == func:
                if any(isinstance(a, ast.Call) and is_prev(a.func) for arg in c.args for a in ast.walk(arg)):
                    return True
        return False
    composed = set()
    for st in branch:
        for n in ast.walk(st):
            if isinstance(n, ast.FunctionDef) and any(composes(b) for b in n.body):
                composed.add(n.name)
    plain = [a for a in assigns if isinstance(a.value, ast.Name) and a.value.id == func]
    chained = [a for a in assigns if (isinstance(a.value, ast.Name) and a.value.id in composed) or (isinstance(a.value, ast.Lambda) and composes(a.value.body))]
    if chained and all(_under_none_test(branch, a, prev_names) for a in plain):
        return "chain"
    if plain and not chained:
        return "replace"
    raise Unknown("support.validator: cannot tell how a second registration is combined with the first")


def _under_none_test(branch, assign, prev_names):
    """the plain `field.validator = func` is only reached when there was no previous validator (`if previous is None:` / `if not previous:`)"""
    def walk(stmts, guarded):
        for st in stmts:
            if st is assign:
                return guarded
            if isinstance(st, ast.If):
                t = st.test
                none_test = (isinstance(t, ast.Compare) and len(t.ops) == 1 and isinstance(t.ops[0], ast.Is) and isinstance(t.comparators[0], ast.Constant)
                             and t.comparators[0].value is None and ((isinstance(t.left, ast.Name) and t.left.id in prev_names) or (isinstance(t.left, ast.Attribute) and t.left.attr == "validator")))
                not_test = isinstance(t, ast.UnaryOp) and isinstance(t.op, ast.Not) and ((isinstance(t.operand, ast.Name) and t.operand.id in prev_names) or
                                                                                         (isinstance(t.operand, ast.Attribute) and t.operand.attr == "validator"))
                r = walk(st.body, guarded or none_test or not_test)
                if r is not None:
                    return r
                r = walk(st.orelse, guarded)
                if r is not None:
                    return r
        return None
    return bool(walk(branch, False))


def registration_table(repo):
    mode = validator_registration(repo)
    lines = ["/- GENERATED by harness/extract.py from /repo on every run — do not edit. -/", "namespace Cinco.Generated", "",
             "/-- what `support.validator` does with a field that already has a validator: \"chain\" (compose in registration order) or \"replace\" -/",
             "def validatorRegistration : String := %s" % lstr(mode), "", "end Cinco.Generated"]
    changed = _write("Registration.lean", "\n".join(lines) + "\n")
    return {"Registration.lean": {"changed": changed, "mode": mode}}


def parser_calls(repo):
    """Every `add_argument` call of `support.generate_argparse_parser`, read off the source: its `action`, the names of the keywords it
    passes, and whether a `default=` it passes is the literal None. (An option that is given `type=`, `choices=`, `nargs=`, `const=`,
    `required=` or a default other than None would make argparse itself interpret, refuse or supply values, instead of handing the
    command line's text to the field.)"""
    mod = _parse(repo, "support.py")
    fn = next((n for n in mod.body if isinstance(n, ast.FunctionDef) and n.name == "generate_argparse_parser"), None)
    if fn is None:
        raise Unknown("support.generate_argparse_parser not found")
    out = []
    for c in ast.walk(fn):
        if isinstance(c, ast.Call) and isinstance(c.func, ast.Attribute) and c.func.attr == "add_argument":
            if any(k.arg is None for k in c.keywords):
                raise Unknown("generate_argparse_parser: add_argument(**kwargs) cannot be read")
            kws = {k.arg: k.value for k in c.keywords}
            action = kws.get("action")
            action = action.value if isinstance(action, ast.Constant) and isinstance(action.value, str) else ("store" if action is None else "?")
            dflt = kws.get("default")
            default_none = dflt is None or (isinstance(dflt, ast.Constant) and dflt.value is None)
            out.append((action, sorted(kws), default_none))
    if not out:
        raise Unknown("generate_argparse_parser: no add_argument call found")
    return out


def parser_table(repo):
    t = parser_calls(repo)
    lines = ["/- GENERATED by harness/extract.py from /repo on every run — do not edit. -/", "namespace Cinco.Generated", "",
             "/-- every `add_argument` call of `generate_argparse_parser`: (action, keyword names passed, `default=` absent or the literal None) -/",
             "def parserCalls : List (String × List String × Bool) := [%s]" % ", ".join(
                 "(%s, [%s], %s)" % (lstr(a), ", ".join(lstr(k) for k in ks), "true" if d else "false") for a, ks, d in t),
             "", "end Cinco.Generated"]
    changed = _write("Parser.lean", "\n".join(lines) + "\n")
    return {"Parser.lean": {"changed": changed, "calls": t}}


def keyfile_shape(repo):
    """The control skeleton of the five `KeyFile` methods the model of Cinco/Crypto/KeyFile.lean follows, reduced to what touches the
    key, the reference count, the key file and the ways out (raise / early return). Statements that touch none of these — logging,
    local names, docstrings, the provider call of encrypt / decrypt — leave the skeleton as it is."""
    mod = _parse(repo, "encryption.py")
    cls = _class(mod, "KeyFile")

    def attr_is(node, frag):
        return isinstance(node, ast.Attribute) and frag in node.attr

    def test_tok(t):
        if isinstance(t, ast.UnaryOp) and isinstance(t.op, ast.Not) and attr_is(t.operand, "key"):
            return "not key"
        if isinstance(t, ast.Compare) and len(t.ops) == 1 and attr_is(t.left, "refcount") and isinstance(t.comparators[0], ast.Constant):
            op = {ast.Eq: "==", ast.LtE: "<=", ast.Lt: "<", ast.Gt: ">", ast.GtE: ">=", ast.NotEq: "!="}.get(type(t.ops[0]), "?")
            return "refcount%s%s" % (op, t.comparators[0].value)
        return "?" + ast.unparse(t)

    def value_tok(v):
        calls = [c for c in ast.walk(v) if isinstance(c, ast.Call)]
        names = [_dotted(c.func) for c in calls]
        if any(n.endswith(".read") for n in names):
            return "read"
        if any("generate_key" in n for n in names):
            return "generate"
        if any(n.endswith("urandom") for n in names):
            return "urandom"
        if isinstance(v, ast.Constant) and v.value is None:
            return "None"
        return "?" + ast.unparse(v)

    def toks(stmts, last_top=None):
        out = []
        for st in stmts:
            if isinstance(st, ast.Expr) and isinstance(st.value, ast.Constant):
                continue
            if isinstance(st, ast.If):
                inner = toks(st.body) + (["else"] + toks(st.orelse) if toks(st.orelse) else [])
                if inner or test_tok(st.test)[0] != "?":
                    out += ["if[%s]" % test_tok(st.test)] + inner + ["end"]
            elif isinstance(st, ast.Try):
                out += ["try"] + toks(st.body)
                for h in st.handlers:
                    out += ["except:" + (_dotted(h.type) if h.type is not None else "*")] + toks(h.body)
                if st.orelse:
                    out += ["else"] + toks(st.orelse)
                if st.finalbody:
                    out += ["finally"] + toks(st.finalbody)
                out += ["end"]
            elif isinstance(st, ast.With):
                ctx = st.items[0].context_expr
                if isinstance(ctx, ast.Call) and _dotted(ctx.func) == "open":
                    mode = ctx.args[1].value if len(ctx.args) > 1 and isinstance(ctx.args[1], ast.Constant) else "r"
                    out += ["open:" + mode] + toks(st.body) + ["close"]
                else:
                    out += toks(st.body)
            elif isinstance(st, ast.AugAssign) and attr_is(st.target, "refcount"):
                out.append("refcount" + {ast.Add: "+=", ast.Sub: "-="}.get(type(st.op), "?=") + ast.unparse(st.value))
            elif isinstance(st, (ast.Assign, ast.AnnAssign)):
                tgts = st.targets if isinstance(st, ast.Assign) else [st.target]
                if any(attr_is(t, "refcount") for t in tgts):
                    out.append("refcount=" + ast.unparse(st.value))
                elif any(attr_is(t, "key") for t in tgts) and st.value is not None:
                    out.append("key=" + value_tok(st.value))
                elif any(isinstance(t, ast.Name) and t.id == "key" for t in tgts) and st.value is not None:
                    out.append("local key=" + value_tok(st.value))
            elif isinstance(st, ast.Raise):
                out.append("raise" + (":" + _dotted(st.exc.func if isinstance(st.exc, ast.Call) else st.exc) if st.exc is not None else ""))
            elif isinstance(st, ast.Return):
                if st is not last_top:
                    out.append("return")
                elif st.value is not None and any(isinstance(n, ast.Name) and n.id == "key" for n in ast.walk(st.value)):
                    out.append("return key")
            elif isinstance(st, ast.Expr) and isinstance(st.value, ast.Call):
                n = _dotted(st.value.func)
                if "load_key" in n:
                    out.append("load")
                elif "validate_key" in n:
                    out.append("validate")
                elif "generate_key" in n:
                    out.append("generate")
                elif n.endswith(".write"):
                    out.append("write " + (ast.unparse(st.value.args[0]) if st.value.args else "?"))
            elif isinstance(st, (ast.For, ast.While)):
                inner = toks(st.body)
                if inner:
                    out += ["loop"] + inner + ["end"]
        return out
    shape = {}
    for name in ("__enter__", "__exit__", "encrypt", "decrypt", "__load_key", "__generate_key", "_validate_key"):
        fn = _method(cls, name)
        body = [b for b in fn.body if not (isinstance(b, ast.Expr) and isinstance(b.value, ast.Constant))]
        shape[name] = toks(body, body[-1] if body else None)
    return shape


def keyfile_table(repo):
    t = keyfile_shape(repo)
    lines = ["/- GENERATED by harness/extract.py from /repo on every run — do not edit. -/", "namespace Cinco.Generated", "",
             "/-- control skeleton of the `KeyFile` methods (cincoconfig/encryption.py): what touches the key, the reference count, the key",
             "    file and the ways out, in source order -/",
             "def keyFileShape : List (String × List String) := [%s]" % ", ".join("(%s, [%s])" % (lstr(k), ", ".join(lstr(x) for x in v)) for k, v in t.items()),
             "", "end Cinco.Generated"]
    changed = _write("KeyFileShape.lean", "\n".join(lines) + "\n")
    return {"KeyFileShape.lean": {"changed": changed, "shape": t}}


def _skeleton(fn, calls, full=False):
    """control skeleton of a function: its branches, loops, handlers and ways out (continue / early return / raise), and the calls whose
    (dotted) name ends in one of `calls`, in source order. Tests are kept as source text. Statements that contain none of these — a
    local name, a log line — leave the skeleton as it is."""
    def interesting(node):
        out = []
        for c in ast.walk(node):
            if isinstance(c, ast.Call):
                n = _dotted(c.func)
                for want in calls:
                    if n == want or n.endswith("." + want):
                        out.append(want)
        return out

    def toks(stmts, last_top=None):
        out = []
        for st in stmts:
            if isinstance(st, ast.Expr) and isinstance(st.value, ast.Constant):
                continue
            if isinstance(st, ast.If):
                out += ["if[%s]" % ast.unparse(st.test)] + toks(st.body)
                if st.orelse:
                    out += ["else"] + toks(st.orelse)
                out += ["end"]
            elif isinstance(st, (ast.For, ast.While)):
                out += ["loop[%s]" % (ast.unparse(st.iter) if isinstance(st, ast.For) else ast.unparse(st.test))] + toks(st.body) + ["end"]
            elif isinstance(st, ast.Try):
                out += ["try"] + toks(st.body)
                for h in st.handlers:
                    out += ["except:" + (ast.unparse(h.type) if h.type is not None else "*")] + toks(h.body)
                if st.orelse:
                    out += ["else"] + toks(st.orelse)
                if st.finalbody:
                    out += ["finally"] + toks(st.finalbody)
                out += ["end"]
            elif isinstance(st, ast.With):
                out += ["with[%s]" % ", ".join(ast.unparse(i.context_expr) for i in st.items)] + toks(st.body) + ["end"]
            elif isinstance(st, ast.Continue):
                out.append("continue")
            elif isinstance(st, ast.Break):
                out.append("break")
            elif isinstance(st, ast.Raise):
                out.append("raise" + (":" + _dotted(st.exc.func if isinstance(st.exc, ast.Call) else st.exc) if st.exc is not None else ""))
            elif full and isinstance(st, (ast.Return, ast.Assign, ast.AugAssign, ast.AnnAssign, ast.Expr, ast.Delete, ast.Pass)):
                out.append(ast.unparse(st))              # a small function read whole: every simple statement as normalised source text
            elif isinstance(st, ast.Return):
                out += interesting(st)
                if st is not last_top:
                    out.append("return")
            elif isinstance(st, ast.Assign) and len(st.targets) == 1 and isinstance(st.targets[0], ast.Name) and isinstance(st.value, ast.Tuple) \
                    and all(isinstance(e, (ast.Name, ast.Attribute)) for e in st.value.elts):
                out.append("let[%s=%s]" % (st.targets[0].id, ast.unparse(st.value)))      # a tuple of classes a later test refers to
            else:
                out += interesting(st)
        return out
    body = [b for b in fn.body if not (isinstance(b, ast.Expr) and isinstance(b.value, ast.Constant))]
    return toks(body, body[-1] if body else None)


def load_validate_shape(repo):
    """control skeletons of the load / validation path the model of Cinco/Config/Ops.lean follows"""
    core_mod = _parse(repo, "core.py")
    cfg, schema, field = _class(core_mod, "Config"), _class(core_mod, "Schema"), _class(core_mod, "Field")
    return {"Config.load_tree": _skeleton(_method(cfg, "load_tree"), ("_get_field", "to_python", "_set_value", "validate", "__setdefault__")),
            "Config.validate": _skeleton(_method(cfg, "validate"), ("_validate",)),
            "Schema._validate": _skeleton(_method(schema, "_validate"), ("_is_feature_enabled", "_validate_field", "validator", "append")),
            "Schema._validate_field": _skeleton(_method(schema, "_validate_field"), ("__getval__", "validate")),
            "Field.validate": _skeleton(_method(field, "validate"), ("_validate", "validator")),
            # what switches a section off: every flag of the schema is asked, each answers with the value the configuration holds
            "Schema._is_feature_enabled": _skeleton(_method(schema, "_is_feature_enabled"), (), full=True),
            "FeatureFlagField.is_feature_enabled": _skeleton(_method(_class(_parse(repo, "fields/bool_field.py"), "FeatureFlagField"), "is_feature_enabled"), (), full=True)}


def load_validate_table(repo):
    t = load_validate_shape(repo)
    lines = ["/- GENERATED by harness/extract.py from /repo on every run — do not edit. -/", "namespace Cinco.Generated", "",
             "/-- control skeletons of `Config.load_tree`, `Config.validate`, `Schema._validate`, `Schema._validate_field`, `Field.validate`",
             "    (cincoconfig/core.py): branches, loops, handlers, ways out and the calls that matter, in source order -/",
             "def loadValidateShape : List (String × List String) := [%s]" % ", ".join("(%s, [%s])" % (lstr(k), ", ".join(lstr(x) for x in v)) for k, v in t.items()),
             "", "end Cinco.Generated"]
    changed = _write("LoadValidateShape.lean", "\n".join(lines) + "\n")
    return {"LoadValidateShape.lean": {"changed": changed, "shape": t}}


def support_shape(repo):
    """control skeletons of the helper functions of support.py that stand between an application and a configuration: reset, status,
    command-line override, enumeration, parser generation"""
    mod = _parse(repo, "support.py")

    def fn(name):
        f = next((n for n in mod.body if isinstance(n, ast.FunctionDef) and n.name == name), None)
        if f is None:
            raise Unknown("support.%s not found" % name)
        return f
    return {k: _skeleton(fn(k), (), full=True) for k in ("reset_value", "is_value_defined", "cmdline_args_override", "get_all_fields")}


def support_table(repo):
    t = support_shape(repo)
    lines = ["/- GENERATED by harness/extract.py from /repo on every run — do not edit. -/", "namespace Cinco.Generated", "",
             "/-- control skeletons of `reset_value`, `is_value_defined`, `cmdline_args_override`, `get_all_fields` (cincoconfig/support.py) -/",
             "def supportShape : List (String × List String) := [%s]" % ", ".join("(%s, [%s])" % (lstr(k), ", ".join(lstr(x) for x in v)) for k, v in t.items()),
             "", "end Cinco.Generated"]
    changed = _write("SupportShape.lean", "\n".join(lines) + "\n")
    return {"SupportShape.lean": {"changed": changed, "shape": t}}


def container_shape(repo):
    """control skeletons of the methods of the typed containers that later repairs rest on: the container fields' `validate` (F75: the
    validator's result passes `_validate` again), the list's index assignment (F76: the index is looked up before the item is validated)
    and the shallow-copy hooks (F72: `copy.copy` is `copy()`)"""
    lmod, dmod = _parse(repo, os.path.join("fields", "list_field.py")), _parse(repo, os.path.join("fields", "dict_field.py"))
    out = {}
    cmod = _parse(repo, "core.py")
    out["Config._render_nested"] = _skeleton(_method(_class(cmod, "Config"), "_render_nested"), (), full=True)
    out["Config.to_tree"] = _skeleton(_method(_class(cmod, "Config"), "to_tree"), (), full=True)
    for meth in ("_ref_path", "_keyfile", "_key_filename"):       # the three walks up the parent links (F74); `_method` finds the getter first
        out["Config." + meth] = _skeleton(_method(_class(cmod, "Config"), meth), (), full=True)
    for mod, cls, meth in ((lmod, "ListField", "validate"), (dmod, "DictField", "validate"), (lmod, "ListProxy", "__setitem__"), (lmod, "ListProxy", "__copy__"),
                           (dmod, "DictProxy", "__copy__"), (lmod, "ListProxy", "copy"), (dmod, "DictProxy", "copy")):
        out["%s.%s" % (cls, meth)] = _skeleton(_method(_class(mod, cls), meth), (), full=True)
    return out


def container_table(repo):
    t = container_shape(repo)
    lines = ["/- GENERATED by harness/extract.py from /repo on every run — do not edit. -/", "namespace Cinco.Generated", "",
             "/-- control skeletons of `ListField.validate`, `DictField.validate`, `ListProxy.__setitem__`, `__copy__` / `copy` of both proxies -/",
             "def containerShape : List (String × List String) := [%s]" % ", ".join("(%s, [%s])" % (lstr(k), ", ".join(lstr(x) for x in v)) for k, v in t.items()),
             "", "end Cinco.Generated"]
    changed = _write("ContainerShape.lean", "\n".join(lines) + "\n")
    return {"ContainerShape.lean": {"changed": changed, "shape": t}}


def run(repo):
    """regenerate every table; a table whose source the translator cannot read any more is left as it was (the last reading) and
    reported under "unreadable": the obligations over it are then not established for the current source"""
    notes = {}
    for step in (tables, overrides, effects, stub_effects, defaults_table, fast_paths_table, registration_table, parser_table, keyfile_table, load_validate_table, support_table, container_table):
        try:
            notes.update(step(repo))
        except Unknown as e:
            notes.setdefault("unreadable", []).append({"table": step.__name__, "why": str(e)})
    return notes


if __name__ == "__main__":
    import json
    print(json.dumps(run(os.environ.get("VERIF_REPO", "/repo")), indent=1))
