"""Translator: /repo source -> lean/Cinco/Cinco/Generated/*.lean, rewritten on every run (only when the
content changed, so that Lake stays incremental).  Deliberately dumb: it reads tables, method sets and
straight-line effect sequences with `ast`, and aborts (InfraError -> exit 2) on syntax it does not know."""
import ast
import os

import lean

GEN = os.path.join(lean.LEANDIR, "Cinco", "Generated")


def _write(name, text):
    os.makedirs(GEN, exist_ok=True)
    p = os.path.join(GEN, name)
    old = open(p).read() if os.path.exists(p) else None
    if old != text:
        tmp = p + ".tmp%d" % os.getpid()
        with open(tmp, "w") as f:
            f.write(text)
        os.replace(tmp, p)
        return True
    return False


def run(repo):
    notes = {}
    return notes
