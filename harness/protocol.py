"""Value encoding of the line protocol (Python side).  Nothing is lost in transit: ints travel as decimal
strings, floats as exact dyadics, strings as code points when not plain ASCII, bytes as hex."""
import math


def enc_str(s):
    if all(0x20 <= ord(c) <= 0x7E and c not in '"\\' for c in s):
        return s
    return [ord(c) for c in s]


def dec_str(j):
    if isinstance(j, str):
        return j
    return "".join(chr(c) for c in j)


def enc_float(f):
    if f != f:
        return "nan"
    if f == math.inf:
        return "inf"
    if f == -math.inf:
        return "-inf"
    if f == 0.0 and math.copysign(1.0, f) < 0:
        return "-0"
    n, d = f.as_integer_ratio()
    e = -(d.bit_length() - 1)
    while n != 0 and n % 2 == 0:
        n //= 2
        e += 1
    if n == 0:
        e = 0
    return [str(n), str(e)]


def dec_float(j):
    if j == "nan":
        return math.nan
    if j == "inf":
        return math.inf
    if j == "-inf":
        return -math.inf
    if j == "-0":
        return -0.0
    m, e = int(j[0]), int(j[1])
    return math.ldexp(m, e)


def enc_tree(v):
    """plain-data tree (what formats encode) -> wire"""
    if v is None:
        return {"t": "null"}
    if isinstance(v, bool):
        return {"t": "bool", "v": v}
    if isinstance(v, int):
        return {"t": "int", "v": str(v)}
    if isinstance(v, float):
        return {"t": "flt", "v": enc_float(v)}
    if isinstance(v, str):
        return {"t": "str", "v": enc_str(v)}
    if isinstance(v, (list, tuple)):
        return {"t": "list", "v": [enc_tree(x) for x in v]}
    if isinstance(v, dict):
        return {"t": "dict", "v": [[enc_str(k), enc_tree(x)] for k, x in v.items()]}
    raise TypeError("not plain data: %r" % type(v))


def dec_tree(j):
    t = j["t"]
    if t == "null":
        return None
    if t == "bool":
        return j["v"]
    if t == "int":
        return int(j["v"])
    if t == "flt":
        return dec_float(j["v"])
    if t == "str":
        return dec_str(j["v"])
    if t == "list":
        return [dec_tree(x) for x in j["v"]]
    if t == "dict":
        return {dec_str(k): dec_tree(x) for k, x in j["v"]}
    raise ValueError(t)


def canon_sorted(v):
    """as canon_tree, but insensitive to dict key order (Python dict equality)"""
    return canon_tree(v, True)


def canon_tree(v, sort=False):
    """type-exact canonical form used to compare trees (NaN by kind, -0.0 by sign, dict order kept)"""
    if v is None:
        return ("null",)
    if isinstance(v, bool):
        return ("bool", v)
    if isinstance(v, int):
        return ("int", v)
    if isinstance(v, float):
        return ("flt", tuple(enc_float(v)) if not isinstance(enc_float(v), str) else enc_float(v))
    if isinstance(v, str):
        return ("str", v)
    if isinstance(v, (list, tuple)):
        return ("list", tuple(canon_tree(x, sort) for x in v))
    if isinstance(v, dict):
        items = [(k, canon_tree(x, sort)) for k, x in v.items()]
        if sort:
            items.sort(key=lambda kv: repr(kv[0]))
        return ("dict", tuple(items))
    return ("opaque", type(v).__name__)
