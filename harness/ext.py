"""Extensions of the library as an application would write them: subclasses of the public field classes that override the documented
hooks (`_validate`, `to_basic`, `to_python`, `__setdefault__`, `__getval__`, `__setval__`, `storage_type`), a `ConfigType` subclass with a
`validate()` of its own, and user-defined file formats registered with `ConfigFormat.register`.  Every hook appends to `LOG` so that a
stream can ask how often, in which order and with which argument the library called it.  Built on first use (the library is imported by
the harness only after HOME is set)."""
import decimal
import fractions
import json

LOG = []
_NS = {}


def log(*what):
    LOG.append(tuple(what))


def ns():
    """the namespace of extension classes (built once)"""
    if _NS:
        return _NS
    import cincoconfig as cc
    from cincoconfig.core import ConfigFormat

    class EvenIntField(cc.IntField):
        """an integer that must be even: the base class converts and checks the bounds, the subclass adds its rule"""
        def _validate(self, cfg, value):
            log("EvenIntField._validate", type(value).__name__)
            value = super()._validate(cfg, value)
            if value % 2:
                raise ValueError("value must be even")
            return value

    class CsvField(cc.Field):
        """a list of words, written `a,b,c` on disk and accepted as such a text"""
        storage_type = list

        def _validate(self, cfg, value):
            log("CsvField._validate", repr(value))
            if isinstance(value, str):
                value = [w.strip() for w in value.split(",") if w.strip()]
            if not isinstance(value, list) or not all(isinstance(w, str) for w in value):
                raise ValueError("value must be a list of words")
            return value

        def to_basic(self, cfg, value):
            log("CsvField.to_basic")
            return None if value is None else ",".join(value)

        def to_python(self, cfg, value):
            log("CsvField.to_python", repr(value))
            return value

    class TemplateField(cc.StringField):
        """stores a template, hands out its expansion (`__getval__` is the documented read hook)"""
        def __getval__(self, cfg):
            raw = super().__getval__(cfg)
            log("TemplateField.__getval__")
            return raw.replace("{root}", "/srv") if isinstance(raw, str) else raw

    class LockedField(cc.StringField):
        """refuses to store while the configuration is locked (`__setval__` is the documented write hook)"""
        locked = False

        def __setval__(self, cfg, value):
            log("LockedField.__setval__", repr(value))
            if type(self).locked:
                raise ValueError("section is locked")
            super().__setval__(cfg, value)

    class StampField(cc.Field):
        """a default computed per configuration by an overridden `__setdefault__`"""
        counter = [0]

        def __setdefault__(self, cfg):
            type(self).counter[0] += 1
            log("StampField.__setdefault__", type(self).counter[0])
            cfg._set_default_value(self._key, "stamp-%d" % type(self).counter[0])

    class LocalisedBoolField(cc.BoolField):
        TRUE_VALUES = cc.BoolField.TRUE_VALUES + ("ja", "wahr", "an")
        FALSE_VALUES = cc.BoolField.FALSE_VALUES + ("nein", "falsch", "aus")

    class StrictBoolField(cc.BoolField):
        TRUE_VALUES = ("true",)
        FALSE_VALUES = ("false",)

    class DecimalField(cc.NumberField):
        """a number field on another number type, with an on-disk form of its own"""
        storage_type = decimal.Decimal

        def __init__(self, **kwargs):
            super().__init__(decimal.Decimal, **kwargs)

        def to_basic(self, cfg, value):
            return None if value is None else str(value)

        def to_python(self, cfg, value):
            return None if value is None else decimal.Decimal(value)

    class PercentField(cc.NumberField):
        def __init__(self, **kwargs):
            super().__init__(int, min=0, max=100, **kwargs)

    class CheckedType(cc.ConfigType):
        """a config type whose `validate()` adds a rule of its own and raises a plain ValueError"""
        def validate(self, collect_errors=False):
            log("CheckedType.validate")
            errs = super().validate(collect_errors=collect_errors)
            if self.lo is not None and self.hi is not None and self.lo > self.hi:
                raise ValueError("lo must not exceed hi")
            return errs

        def span(self):
            return self.hi - self.lo

    class ReversedJsonFormat(ConfigFormat):
        """a user-defined format: JSON text, written back to front"""
        def __init__(self, **kw):
            log("ReversedJsonFormat.__init__", sorted(kw))
            self.parsed = []                       # per-instance state: what THIS instance has parsed

        def dumps(self, config, tree):
            return json.dumps(tree, sort_keys=True)[::-1].encode("utf-8")

        def loads(self, config, content):
            self.parsed.append(len(content))
            if len(self.parsed) > 1:
                raise ValueError("this formatter instance has already parsed a document")
            return json.loads(content.decode("utf-8")[::-1])

    try:
        ConfigFormat.register("rjson", ReversedJsonFormat)
    except Exception:  # noqa
        pass
    _NS.update(EvenIntField=EvenIntField, CsvField=CsvField, TemplateField=TemplateField, LockedField=LockedField, StampField=StampField,
               LocalisedBoolField=LocalisedBoolField, StrictBoolField=StrictBoolField, DecimalField=DecimalField, PercentField=PercentField,
               CheckedType=CheckedType, ReversedJsonFormat=ReversedJsonFormat, Decimal=decimal.Decimal, Fraction=fractions.Fraction)
    return _NS
