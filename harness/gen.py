"""Seeded generators shared by several properties."""

KEYS = ["a", "b", "c", "d", "e"]
SCALARS = [None, True, False, 0, 1, -7, 2 ** 40, "", "x", "hello world", 1.5, -0.25]


def scalar(rng, pool=SCALARS):
    return rng.choice(pool)


def tree_value(rng, depth, scalars=SCALARS, keys=KEYS, p_dict=0.45, p_list=0.12):
    r = rng.random()
    if depth > 0 and r < p_dict:
        return tree_dict(rng, depth - 1, scalars, keys, p_dict, p_list)
    if depth > 0 and r < p_dict + p_list:
        return [tree_value(rng, depth - 1, scalars, keys, p_dict, p_list) for _ in range(rng.randint(0, 3))]
    return scalar(rng, scalars)


def tree_dict(rng, depth, scalars=SCALARS, keys=KEYS, p_dict=0.45, p_list=0.12, min_keys=0):
    n = rng.randint(min_keys, len(keys))
    ks = rng.sample(keys, n)
    return {k: tree_value(rng, depth, scalars, keys, p_dict, p_list) for k in ks}
