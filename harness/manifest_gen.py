"""Regenerates MANIFEST.json from the table below (run by hand when a property is added)."""
import json
import os

HERE = os.path.dirname(os.path.abspath(__file__))
VERIF = os.path.dirname(HERE)

CHECKS = {
    "C18": dict(
        text="Lean 4 theorems about a code-order model of IncludeField.combine_trees and Config._process_includes "
             "(lookup law, key law, dict invariant kept, identities, child wins on map/non-map conflicts, root / nested-scope / "
             "chained includes, unresolved include fails) for all trees; the model is tied to /repo by a correspondence check "
             "(same trees and include layouts through the real code and the model, all five formats) plus a direct oracle of "
             "the deep-merge law and of input purity on the implementation.",
        note="Model hand-written; tie = differential correspondence on generated cases (not proof). File-name resolution "
             "(FilenameField exists='file', startdir) is abstracted as `resolve`; third-party parsers trusted. Purity observed, not proved.",
        technique="Lean 4 proof (structural induction over trees) + model/implementation correspondence",
        design="6 C18"),
}
CHECKS["C04"] = dict(
    text="Lean 4 theorems: the XML element codec (_to_element/_from_element) is inverse on every tree satisfying the dict "
         "invariant (bool/int/float/str/null kept apart, '' vs null, [] vs {} vs null, nesting, key sets) by mutual structural "
         "induction, including int(str(i)) = i proved for the modelled int text functions; root tag check; YAML root-key "
         "wrap/unwrap inverse for every root key; registry resolution and the Bool token tables are `decide` obligations over "
         "tables regenerated from the source on every run. Correspondence: element-level encode and decode (mutated elements) "
         "through the real code and the model; document-level round trips in all five formats x options as a direct oracle.",
    note="Text layers (json, PyYAML, bson, pickle, ElementTree+minidom+expat) are third-party: hypothesis Codec.Law, explored only. "
         "float text (str/float) is CPython's: hypothesis FloatText.Lawful. String primitives (lower, strip, int grammar) are "
         "hand-written models on a model alphabet, validated by the correspondence.",
    technique="Lean 4 proof (mutual structural induction; decide over generated tables) + model/implementation correspondence",
    design="6 C04")
CHECKS["C07"] = dict(
    text="Lean 4 theorems about a code-order state machine of KeyFile (per object key/refcount; world = one file + the os.urandom "
         "tape): verbatim use of a 32-byte file with the world unchanged, creation from the next tape entry, rejection of any other "
         "size leaving the object closed, nested contexts share the key without touching the file, and the invariant 'key present "
         "iff a context is open, and then 32 bytes' for every reachable state of every properly nested history with external file "
         "changes (induction over histories), hence no encrypt/decrypt ever runs with anything but 32 bytes. Correspondence: "
         "random histories on the real KeyFile (exception class, file bytes, private key/refcount after every op) vs the model; empty plaintexts "
         "outside a context; files that spell 32 bytes in hex / base64."
         " Continuation (Props/C07b.lean): after any properly nested history (failed opens, contexts left by exceptions, other objects, "
         "external file changes) a closed object holds nothing and its next session uses the key file as it is then — verbatim, refused, "
         "or created (next_session_*), so a replaced key file is respected (rotation_respected, rotation_after_failed_open).",
    note="Model hand-written, tied by differential histories. File system abstracted to one path (absent / bytes / not creatable); "
         "randomness of the generated key not modelled; __exit__ without __enter__ is outside the property.",
    technique="Lean 4 proof (invariant by induction over operation histories) + model/implementation correspondence",
    design="6 C07")
CHECKS["C08"] = dict(
    text="Lean 4 theorems: XOR spec and involution for every key/data; PKCS7 pad/unpad inverse for every length; AES-CBC round trip, "
         "layout and IV-freshness for every key, IV and plaintext over any block cipher with dec(enc b)=b; short/unaligned "
         "ciphertexts rejected; recorded method always concrete; SecureField stored-value decision table (every malformed shape "
         "rejected) and field-level round trip, using proved base64 decode(encode b)=b. Correspondence: the model instantiated "
         "with an executable FIPS-197 AES-256 decrypts every ciphertext the library produced and re-encrypts with the IV it drew "
         "(byte equality); malformed-value grammar through SecureField.to_python (strict base64: theorem stored_foreign_characters_rejected — a stored "
         "ciphertext with a character outside the alphabet, or not a whole number of 4-character groups, is rejected); provider objects reused "
         "for several values; strict and lenient base64 decoding on random text."
         " Continuation (Props/C08b.lean): the executable AES-256 of the model is proved to be a lawful block cipher for every key (S-box by exhaustive table check, MixColumns inverse from XOR-linearity of xtime), so the CBC round trip holds for it with no hypothesis on the block function.",
    note="BlockCipher.Lawful for the real AES and Utf8.Lawful are hypotheses (not axioms); the Lean AES is validated by NIST vectors at "
         "build time and differentially on every case. IV randomness and 'another key never yields the plaintext' are not provable; the "
         "latter is checked per case. base64 is a hand model of binascii validated by the stream.",
    technique="Lean 4 proof (byte-list algebra, induction over blocks) + model/implementation correspondence with an independent AES",
    design="6 C08")
CHECKS["C09"] = dict(
    text="Lean 4 theorems over an abstract hash: what is stored is (next tape entry, H(salt ++ p)); challenge <=> digest equality; "
         "the secret verifies; another secret fails under collision freedom for that pair; two assignments draw consecutive tape "
         "entries; the on-disk form is a function of salt and digest only; to_python(to_basic dv) = dv via proved base64 inverse; a "
         "hand-written plaintext is hashed on load; the six offered algorithms and digest sizes are a decide obligation over the "
         "generated table. Correspondence: six algorithms x secrets x formats with os.urandom taped, against the model instantiated "
         "with executable Lean MD5/SHA-1/SHA-2 written independently of hashlib.",
    note="CollisionFree is an explicit hypothesis (cryptographic assumption). Salt randomness is not modelled. The Lean hashes are "
         "executable references validated by vectors and differentially, not proved equal to the standards.",
    technique="Lean 4 proof (equational, over an abstract hash) + model/implementation correspondence with independent hashes",
    design="6 C09")
CHECKS["C19"] = dict(
    text="Lean 4 theorems about the effect sequences generated from today's source of Config.save and Config.dumps: a general "
         "ordering lemma (a fault at or before the first effect that can touch the destination leaves it untouched, for every "
         "program, by induction); decide obligations on the generated save program (self.dumps is called, strictly before the first "
         "destination-touching effect, nothing untranslatable) and on the dumps program (no file effect of its own); success writes "
         "exactly the serialised bytes. Correspondence: fault injection at every serialisation step x five formats on the real "
         "Config.save with a pre-existing destination (bytes, inode, mtime, log of opens for writing) vs the interpreter; successful "
         "saves (key files given or created during the save, text with blank lines, lossy encoders) must load back equal. Continuation "
         "(Props/C19b.lean): a generated obligation on Config.load / loads (reads what it is given, cannot write) and the join of "
         "save_ok_bytes with C02's document round trip through the file's bytes: a file written by a successful save loads back into a "
         "configuration holding the same values.",
    note="Translator (harness/extract.py, ast-based, straight-line subset; unknown syntax becomes an `unknown` effect that breaks the "
         "obligation) and the hand-written effect semantics are trusted. A crash inside file.write is outside the property and the model.",
    technique="Lean 4 proof over a model regenerated from the source on every run (translator) + fault-injection correspondence",
    design="6 C19")
CHECKS["C05"] = dict(
    text="Lean 4 theorems about a code-order model of Field.validate and every built-in _validate/to_basic/to_python: validation "
         "is idempotent for every field class, every parameterisation inside the decidable guard IdemOk (all but custom validators "
         "and the recorded findings F22/F25), every input value of every type and every nesting depth of typed lists/dicts (mutual "
         "structural recursion; string transforms, int text, IPv4 address/network parse-print round trips, base64/hex inverses all "
         "proved); the guard is shown necessary by a kernel-evaluated counterexample; byte, digest and identity codecs invert. "
         "Correspondence: random declarations x value pools through validate / validate-again / to_basic / to_python on the real "
         "fields and the model (about 7000 comparisons per quick run), with direct idempotence and codec oracles on the implementation."
         " Continuation (Props/C05b.lean): validation is sound with respect to the declared constraints for every kind and option, nested typed lists and dicts included (type shape, numeric bounds with exact int/float comparison, lengths, choices, regex, case- and strip-normal form, prefix bounds and canonical network text, existence modes, duplicate-free dict keys). Props/C05c.lean: the converse on normal forms — a value satisfying the declaration is accepted unchanged, so the set of validation results is exactly the set of values satisfying the declaration (accepts_exactly), under a decidable side condition whose every exclusion has a proved counter-example (custom validators, the recorded F22 / F25 declarations).",
    note="Model hand-written; tie = differential correspondence. float(text), os.path.*, urlparse are environment parameters fed from "
         "CPython per case; str.lower/upper/strip, int(text), the re fragment and ipaddress are hand models (model alphabet; outside it "
         "cases are counted as unmodelled). Exactness against an independent declarative Accepts predicate is not yet stated as a "
         "theorem: it rests on the correspondence. Codec inversion is proved per leaf kind; its lifting over nesting is explored, not proved. "
         "Known findings F22 (IPv4Network canonical form vs string options), F23 (foreign-algorithm digest), F25 (resolved path vs string options).",
    technique="Lean 4 proof (mutual structural recursion over field declarations) + model/implementation correspondence",
    design="6 C05")
CFG_NOTE = ("Model hand-written (Cinco/Config/*.lean: build, _set_value, __setitem__, load_tree, validate, reset, to_tree in code order, "
            "every operation returning the state at return/raise); tie = differential histories with full state comparison after every "
            "operation. Field layer as in C05. Strings outside the model alphabet with case/regex fields are counted as unmodelled.")
CHECKS["C01"] = dict(
    text="Lean 4 theorems about the code-order configuration model: read-back (an accepted assignment stores exactly validate's result), "
         "frame (an assignment, accepted or rejected, of anything changes no other key), the invariant 'every held value at any depth is "
         "unset or a result of its field's validation' (Cinco/Proofs/Inv.lean, where proved), and a decide obligation over method sets "
         "regenerated from the source on every run: ListProxy/DictProxy override every inserting entry point of list/dict. "
         "Correspondence: random schemas x histories (assignment by dotted path and chained attributes of values, maps, configuration "
         "objects; load_tree; validate; reset; to_tree) with full-state comparison after every step, plus re-validation of every "
         "readable value by its own field, a mutation stream over every list/dict mutator, and a boundary sweep (every value derived from a field's declared bounds, exactly at and just beyond them, strings whose length changes under the declared transformations, through five routes) judged by a declarative reading of the declaration."
         " Continuation (Props/C01b.lean): every reachable state satisfies the constraints its fields *declare* (Sat, written from the declaration, not through the validator) — soundness of validation composed with the invariant over histories."
         " Props/C01c.lean (F75): validateC, the chain of a typed list / dict field whose own validator hands back a new container — what is held is a fixed point of the field's _validate whatever the validator returned; equal to validate for validators that return normal forms; the two validate methods are read whole from the source (Generated/ContainerShape.lean) and pinned by a decide obligation; extension classes written as an application writes them (harness/ext.py) drive the hooks with implementation-side oracles.",
    note=CFG_NOTE + " Values of AnyField / untyped containers are unconstrained. The table of inserting entry points of list/dict is trusted.",
    technique="Lean 4 proof (case analysis and induction over the operation model; decide over generated method sets) + model/implementation correspondence",
    design="6 C01")
CHECKS["C06"] = dict(
    text="Lean 4 theorems: a rejected _set_value (leaf value, map or configuration assigned to a sub-configuration slot, list assigned to "
         "a list of configurations) returns the state it was given — validation and the construction+loading of the new sub-configuration "
         "precede the first write; the same through dotted paths at any depth (induction on the path); decide obligation on the generated "
         "effect sequence of Config.loads: parsing and include processing strictly before load_tree. Correspondence + snapshots: the "
         "history stream with invalid arguments up-weighted, single-element proxy insertions, malformed documents in five formats.",
    note=CFG_NOTE + " Multi-element operations and a load_tree failing midway are outside the property and modelled as non-atomic.",
    technique="Lean 4 proof (write-ordering in a state-at-raise model; decide over a generated effect sequence) + model/implementation correspondence",
    design="6 C06")
CHECKS["C12"] = dict(
    text="Lean 4 theorems: __setdefault__ marks exactly its own key and touches no other; a plain field starts at its declared default; an "
         "accepted assignment defines exactly its key; a rejected one changes no status (corollary of C06); reset = __setdefault__ on the "
         "owner: restores value and status, frames everything else. Correspondence: histories with reset/is_value_defined, plus direct "
         "oracles (fresh configuration, callable defaults evaluated anew per configuration and per reset, falsy constructor keywords, "
         "falsy and empty environment values, mutable and challenge defaults). Continuation (Props/C12b.lean): a freshly built "
         "configuration is all-default at every depth; over every history of assignments (accepted or rejected), loads and resets on "
         "one configuration level the user-defined status of every key equals what a key-set machine computed from the schema alone "
         "says (refinement by induction over histories), rejected assignments are invisible, reset after any history restores default "
         "and status; the reading of support.reset_value / is_value_defined regenerated on every run is the one the model follows "
         "(reset_code_order).",
    note=CFG_NOTE + " The history refinement is proved for the leaf keys of one configuration level (deeper levels: all-default at build is "
         "proved, histories are compared by the correspondence).",
    technique="Lean 4 proof (per-step state-machine lemmas) + model/implementation correspondence",
    design="6 C12")
CHECKS["C15"] = dict(
    text="Lean 4 theorems: every rejection of any value (any Python kind, configuration objects included) for a declared leaf, virtual or "
         "instance-method field is the library's ValidationError; its path is the owning configuration's path joined with the key (plus "
         "[key] for dict entries); non-map values for a sub-configuration slot name the slot; dotted assignment descends with the joined "
         "path. Correspondence: rejections on every route (dotted, chained attribute, load_tree, documents in five formats, constructor "
         "keywords, include pre-pass) with exception class and ref_path compared to the model and checked to resolve in the schema."
         " Continuation (Props/C15b.lean): the item index an error names, over whole histories of list operations — a model of the items' "
         "back-references (list objects by identity, derivations, assignment of derived lists, loads) in which every item of the held list points at "
         "the held list after every history (run_inv), hence the named index is the held index (index_right_after_any_history); the code before F50 "
         "is refuted by a four-step history. The links stream compares real histories with this model step by step. Props/C15c.lean (F74): the path names every ancestor whatever the ancestors hold; the three walks up the parent links are pinned to the identity test (parent_walks_code).",
    note=CFG_NOTE + " Unknown keys on non-dynamic configurations raise AttributeError (not a declared field). Messages are not compared.",
    technique="Lean 4 proof (case analysis over the wrapped regions of the operation model) + model/implementation correspondence",
    design="6 C15")
CHECKS["C11"] = dict(
    text="Lean 4 theorems about Schema._validate / load_tree in code order: raising-mode validation returns iff the feature flag is off or "
         "no field has a problem and every schema validator holds (characterisation), hence a returning validation means every field "
         "validator accepted the stored value, every nested configuration validated, every schema validator passed; required implies "
         "set (and non-empty strings); a load with validation that returns has run the whole validation on the result (induction over "
         "the tree entries); collecting mode is non-empty iff raising mode raises; a flag that is off exempts exactly its own "
         "configuration. Correspondence: schemas with required fields, logging validators and flags x trees/documents; the live "
         "configuration (list items included) is walked after every returning validation; required fields bound to unset / empty / set "
         "variables; validators on item, key and value fields of typed containers."
         " Continuation (Props/C11b.lean): several validators registered on one field are their composition in registration order — a "
         "composition that returns means every registered validator was run on its predecessor's result and passed (chain_ok_iff_ran), it "
         "rejects exactly when one of them rejects (chain_error_iff); the reading is regenerated from support.validator on every run "
         "(source_chains_registrations) and the real decorator is compared with the model's chain over the validator catalogue.",
    note=CFG_NOTE + " The validator catalogue is implemented twice (Python/Lean). Items of configuration lists are checked at load/insert only.",
    technique="Lean 4 proof (characterisation of the validation pass; induction over tree entries) + model/implementation correspondence",
    design="6 C11")
CHECKS["C14"] = dict(
    text="Lean 4 theorems: the variable a field is bound to, as a function of the env settings on the way down (inheritance below a string "
         "prefix = upper-cased underscore-joined keys, explicit names verbatim, env=False opts out, absence/opt-out propagate, nested "
         "named/True prefixes restart), with the documented examples kernel-evaluated; the variable wins at construction, an invalid one "
         "fails construction with a ValidationError naming the field, loads skip the key while it is set, unset/empty/unbound = no "
         "binding (exact characterisation). Correspondence: the whole settings matrix on real schemas (names) and env states x kinds "
         "(precedence) against the model; construction routes (dotted item assignment, chained attributes), validators of the "
         "application's own, digest defaults and re-declared keys by direct oracles. Continuation (Props/C14b.lean): over every history "
         "of assignments, loads and resets on a configuration level the values, statuses and tape position are those of an abstract "
         "map computed from the schema and the world alone (refinement by induction over histories); hence a value taken from a set "
         "variable survives any number of loads, the last accepted assignment wins over variable and loads, a reset returns to the "
         "variable's value, and bindings not in force are unobservable. C14b.env_equals_assignment: a set variable gives the field what assigning the same text gives (status apart); the round-11 stream compares exactly that on the real code for leaf fields with defaults and blank variables.",
    note=CFG_NOTE + " Schemas are built top-down as the property states. Known finding F10: typed list/dict fields ignore their variable "
         "at construction while loads skip them (proved about the model: env_ignored_by_lists); the challenge-with-default case was repaired.",
    technique="Lean 4 proof (closed-form naming by induction over the schema chain; case analysis of __setdefault__/load_tree) + model/implementation correspondence",
    design="6 C14")
CHECKS["C16"] = dict(
    text="Lean 4 theorems: a path is enumerated with field f iff component-wise lookup on the schema yields f (mutual structural "
         "recursion, keys distinct per level); the dotted-string walk on the schema and on a configuration equals component-wise "
         "lookup / chained access, membership = that access finds something; the generated parser has one option per scalar field and "
         "two switches per boolean with dest = path; an empty command line overrides nothing; an override leaves every top-level key "
         "untouched that is not the first component of a supplied, non-ignored option (fold induction over the namespace, using the C01 "
         "frame theorem). Correspondence: real get_all_fields / schema[path] / item_ref_path / membership / chained access, the real "
         "generated ArgumentParser's actions, and random command lines x ignore lists through the real parser and cmdline_args_override; fields and "
         "sections constructed with an explicit key=; option texts the field normalises (other case, blanks, numbers as text) against declared "
         "choices / bounds; chains of sections five levels deep."
         " Continuation (Props/C16b.lean): the reading of generate_argparse_parser regenerated on every run — every add_argument call passes only "
         "action/dest/help/metavar/default=None, so argparse neither converts nor restricts nor supplies values (parser_adds_nothing); the "
         "reading of cmdline_args_override / get_all_fields regenerated on every run is the one the model follows (override_code_order).",
    note=CFG_NOTE + " argparse itself (exact long options, --opt=value, switches) is CPython's; abbreviations and option-like values are "
         "outside the model. Known finding F17: enumeration on a nested (keyed) schema yields paths that do not resolve on it.",
    technique="Lean 4 proof (mutual structural recursion over schemas; fold induction) + model/implementation correspondence",
    design="6 C16")
CHECKS["C10"] = dict(
    text="Lean 4 theorems about the code-order to_tree: a sensitive field is rendered as the mask (one character repeated to the value's "
         "length, any other mask verbatim, a falsy value as null) without computing its to_basic; a non-sensitive field is rendered "
         "exactly as without a mask; without a mask every leaf is its field's to_basic; the same mask and virtual flag reach nested "
         "sub-configurations, config types and every configuration held in a list (element-wise lemma). Correspondence: histories "
         "ending in to_tree with several masks vs the model; marker stream (unique plaintexts in every sensitive position at every "
         "depth, in list items, and in configurations held below nested lists and dicts) over tree and five document formats. "
         "Continuation (Props/C10b.lean, Config/Nested.lean): the walk that renders configurations held below nested containers "
         "(the repair of F38) puts the caller's rendering at every configuration position at every depth and changes nothing else; "
         "no string the inner renderings and the leaves do not mention survives, whatever the unmasked renderings contained; "
         "compared with Config._render_nested on random nestings, agreeing and disagreeing shapes. Rounds 11-12: Config.to_tree and Config._render_nested are read whole from the source and pinned (to_tree_code_order, render_nested_code_order); configurations held in tuples by untyped fields (F77), options leaking between declarations of one field class, and extension fields are driven under every mask.",
    note=CFG_NOTE + " len(str(value)) is modelled for str/int/bool values. Document-level absence of markers is explored, the tree-level "
         "statement is proved. Nested containers of configurations have their own small model (the configuration model has no such slot); "
         "the inner configurations' renderings are parameters there.",
    technique="Lean 4 proof (case analysis of the rendering loop; list induction for items) + model/implementation correspondence",
    design="6 C10")
CHECKS["C17"] = dict(
    text="Lean 4 theorems: with acceptable arguments every ListProxy operation (append, insert, extend, +=, index / slice / extended-slice "
         "assignment from any iterable, pop, remove, delete, reverse, clear, *=) equals the same operation of a specified built-in list "
         "on the normalised items, and every DictProxy operation (item assignment, update in all call forms, setdefault, |=, pop, "
         "popitem, delete, clear) equals the built-in dict's (refinement, by cases on the operation); a typed list only ever holds "
         "validation results after any operation, acceptable or not, including a half-finished extend, along whole histories "
         "(induction); rejected single-element insertions leave list and dict unchanged (C06). Correspondence three-way: the real proxy, "
         "a plain built-in replaying the history with field-validated arguments, and the model; result types of copy and + checked."
         " An index assignment whose index names no item is the built-in's IndexError whatever the item (list_setidx_no_slot, F76); ListProxy.__setitem__, __copy__ and copy of both proxies are read whole from the source and pinned (setitem_and_copy_code_order, F72 / F76); user-written item / key / value fields whose normalisation is not idempotent, that map to None, and key fields that normalise are driven against the built-in replay (enumerated)."
         " Continuation (Props/C17b.lean): the typed dict holds only validation results after every operation, accepted or rejected, along whole histories (dict counterpart of list_inv), keys stay duplicate-free."
         " Props/C17c.lean (model Proxy/CopyDepth.lean): a copy of a typed list of lists is one level deep — it holds the same inner list objects, edits of an inner list show through the original and every copy, edits of one outer list are private to it; histories compared with real typed lists and built-in lists.",
    note="Cinco/Proxy/PyList.lean and the association-list dict are hand-written specifications of CPython's list/dict, validated "
         "three-way. sort, slice deletion and the non-mutating queries are inherited unchanged and checked by the stream only. "
         "proxy * k, plain + proxy and proxy | mapping return plain built-ins by Python's own dispatch (observation).",
    technique="Lean 4 proof (refinement to a specified built-in; invariant by induction over histories) + three-way correspondence",
    design="6 C17")
CHECKS["C20"] = dict(
    text="Lean 4 theorems about a model of stubs.py (get_annotation_typestr, get_method_annotation, generate_stub) as a declaration tree and "
         "as text: the annotated attributes are exactly the non-method fields in schema order (virtual included) with their type strings; "
         "the constructor takes exactly the persistent fields (iff, and a sub-list of the attributes); one method per instance-method field; "
         "for every signature shape (positional-only, positional, *args, keyword-only, **kwargs, annotated or not) Python's reading of the "
         "rendered parameter list, with its / and * markers, yields the bound function's names and kinds with the first called self; the text "
         "is one class header followed only by blank or indented lines; line count. No side effect: the translator extracts every output call "
         "and every write through a non-local object from the current stubs.py and the theorem `no_side_effect` is a decide obligation that "
         "this list is empty. Correspondence: real stub text == model text line for line over random schemas handed in as Schema, Config and "
         "ConfigType; CPython's parser/compiler accepts the real text and its tree equals the model's; stdout captured; deep snapshot unchanged.",
    note="Python's grammar is not modelled: syntactic validity is decided per sample by CPython (ast.parse + compile) - explored, not proved. "
         "The field class -> type table and repr of typing objects are harness-side / CPython's. Side-effect freedom is a syntactic check of "
         "stubs.py by the translator plus per-sample observation, not a semantic proof about callees.",
    technique="Lean 4 proof (list induction; parameter-list reading function) + translator-generated decide obligation + model/implementation correspondence",
    design="6 C20")
CHECKS["C02"] = dict(
    text="Lean 4 theorems: for every schema with distinct keys and every configuration of it at any nesting depth (sub-configurations, "
         "config types, lists of configurations, dynamically added fields), if the state validates and to_tree returns t then load_tree(t) "
         "into a fresh configuration of the schema, with or without validation, does not fail and holds the same value under every "
         "persistent field at every depth up to exactly the allowed normalisations, the same dynamic values and nothing else (induction on "
         "nesting depth over the code-order models of to_tree / load_tree / _set_value); lifted to Config.dumps/loads for every format that "
         "gives the tree back (format-level law, C04), and two such formats are interchangeable. Premises are explicit and shown jointly "
         "satisfiable: per-leaf codec law (C05/C08/C09), no field bound to a set environment variable, nested configurations validate. "
         "Correspondence: random histories ending in validate + to_tree vs the model, load_tree of the real tree into a fresh configuration vs "
         "the model; direct oracle: dumps/loads through all five real formats x options for every valid reachable state, value equality at "
         "every depth, tree plainness and absence of computed fields.",
    note=CFG_NOTE + " The text layers are third-party: DocFormat.LawOn is a hypothesis, exercised for real per sample. The model validates decoded "
         "list/dict items again on assignment where the real proxies recognise their own kind; equal for idempotent item fields "
         "(C05.validate_idem), schemas with the recorded non-idempotent item fields (F22/F25) are counted as unmodelled.",
    technique="Lean 4 proof (induction on nesting depth; refinement of load_tree after to_tree to the identity up to named normalisations) + model/implementation correspondence",
    design="6 C02")
CHECKS["C03"] = dict(
    text="Lean 4 theorems about toTreeK, the serialisation with the encryption world chosen per configuration by the bubbling rule of "
         "Config._keyfile: a secure leaf holding a non-empty secret is written as exactly what encrypt returns under the holder's key file "
         "(never the held string); that result is a {concrete method, base64 ciphertext} map and decrypts to the secret under the same key "
         "for every key, IV and method (C08); the key file in use at the end of any ancestor chain is the last one named on it, the default "
         "only if none is (keyAlong); the written tree depends on the per-key-file worlds only at the key files of the configurations of the "
         "tree (parametricity), each of which is the default or named in the tree, and never the default when the root names one; with one "
         "key file per tree toTreeK is the plain to_tree in that key's world, so reload under the same key file is the C02 round trip. "
         "Correspondence: histories of key-file assignments / secret assignments / replacements / loads / keyed serialisations on the real "
         "library (key file identified per ciphertext by trial decryption, open() log, directory listing) vs the model; direct oracle of the "
         "nearest-named-ancestor rule, absence of plaintext in five document formats, reload in-process and in a new interpreter session."
         " Continuation (Props/C03b.lean): a built configuration carries the key file it was built with; no operation changes the owner's key file; a successful load rebuilds every mentioned sub-configuration with the schema's key file (an assigned name is lost: F19 in general; a declared one comes back; unmentioned ones are kept); hence built and loaded configurations of a schema without declared keys use one key file at every node, which discharges the uniformity premise of the reload theorem.",
    note=CFG_NOTE + " Reload is proved for trees served by one key file (reload_same_key_partial); a key file assigned to a plain sub-configuration "
         "does not survive replacement of that object (finding F19, witness theorem f19_sub_key_lost). 'Plaintext absent from the output bytes' "
         "is explored per sample: a ciphertext could contain the plaintext by coincidence, no theorem excludes that. KeyFile file access is "
         "C07's model; here it is observed through open().",
    technique="Lean 4 proof (mutual induction over nesting; parametricity in the per-key-file worlds) + model/implementation correspondence",
    design="6 C03")
CHECKS["C13"] = dict(
    text="Lean 4 theorems about a heap model with ghost ownership (list / dict / configuration cells; a schema's mutable defaults are "
         "schema-owned cells; build / assignment of fresh values / in-place mutation at any depth / reset / dynamic-field addition / "
         "list-item addition on one root configuration at a time): the separation invariant (everything reachable from root i is owned by "
         "i, everything reachable from a declared default by the schema, no cell referenced twice, acyclic) holds initially and is "
         "preserved by every step; hence for every history and i != j an operation (sequence) on i changes neither the deep observation "
         "nor the dynamic fields of j nor any declared default; a configuration built after any history observes what one built first "
         "observes; defaults never change; items of different lists (same or different roots, same item schema) are independent. The "
         "one hypothesis, AllDeep, is discharged by a decide obligation over the translator's table of how each __setdefault__ of the "
         "current source hands a mutable default over; witnesses show alias and shallow copies break every conclusion. Correspondence: "
         "random schema tables x histories over two to four roots on the real library vs the model (deep observations of every root and "
         "every default after every step) plus the direct oracle of the property on the implementation, field sets and options included. "
         "Continuation (Props/C13b.lean, Heap/Transfer.lean): a typed container handed from one configuration to another "
         "(assignment of the other's proxy, load of its rendered tree) is a further step of the model; in its guarded form it preserves "
         "the invariant, is invisible through every other root including the giver, reads back what the giver held, and every frame "
         "theorem applies to any history after it; witnesses show all of this failing when the inner containers are adopted. Which form "
         "the source has is a second decide obligation over the translator's table of proxy fast paths (each must test the identity of "
         "the owning configuration). A transfer stream (every route x every container kind x every level mutated afterwards) is the "
         "direct oracle; it found F37.",
    note="Model hand-written (Cinco/Heap/Model.lean, Heap/Transfer.lean), tied by histories; the copy discipline per field class and the "
         "guard of every proxy fast path are read off the source syntactically (harness/extract.py default_disciplines, proxy_fast_paths). "
         "Schemas are immutable in the model by construction; the real schema's field table and field options are observed per step. "
         "Values that carry no validation (items of untyped containers and AnyFields, configuration objects moved between lists) keep "
         "the identity of what the application hands over, by ordinary Python semantics, and are outside the stream; in-place merges "
         "(update / extend / |= / +=) from another configuration's proxy are modelled as an assignment of the merged plain value.",
    technique="Lean 4 proof (ownership / separation invariant by induction over histories, frame lemma) + two translator-generated decide obligations + model/implementation correspondence",
    design="6 C13")
PENDING = ["C01", "C02", "C03", "C04", "C05", "C06", "C07", "C08", "C09", "C10", "C11", "C12", "C13", "C14", "C15", "C16",
           "C17", "C19", "C20"]


FIXES = list(dict.fromkeys(f['commit'] for f in json.load(open(os.path.join(VERIF, 'known_findings.json')))['findings'] if f['status'] == 'fixed'))


def main():
    checks = []
    for pid, c in sorted(CHECKS.items()):
        checks.append({
            "property_id": pid,
            "quick_cmd": "./check %s --tier quick" % pid,
            "thorough_cmd": "./check %s --tier thorough" % pid,
            "evidence_file": "evidence/%s.json" % pid,
            "replay_cmd_template": "./check %s --replay {path}" % pid,
            "engine": "lean4-cinco",
            "level_claimed": {"category": "proof", "text": c["text"], "design_ref": "DESIGN.md section " + c["design"]},
            "level_note": c["note"],
            "technique": c["technique"],
        })
    m = {
        "version": 1,
        "setup_cmd": "/venv/bin/python -B harness/extract.py > /dev/null && cd lean/Cinco && lake build Cinco driver",
        "hooks": {
            "guard": "AMEILY_CINCOCONFIG_VERIF",
            "enable": "no hooks: every observation is made through the public API, private attribute reads and harness-side "
                      "wrapping of open/os.urandom/os.environ",
            "baseline_off_cmd": "cd /repo && /venv/bin/python -m pytest -ra -q -p no:cacheprovider --timeout=900 --continue-on-collection-errors",
            "source_commits": FIXES,
            "add_only": True,
        },
        "engines": [{"name": "lean4-cinco", "path": "lean/Cinco", "serves_properties": sorted(CHECKS),
                     "kind_free_text": "Lean 4 model + theorems (lake project, no Mathlib require), compiled line-protocol driver, "
                                       "Python correspondence harness in harness/"}],
        "checks": checks,
        "not_applicable": [{"property_id": p, "reason": "not claimed yet: model and theorems under construction (see DESIGN.md section 11)"}
                           for p in PENDING if p not in CHECKS],
        "notes": "Exit codes: 0 held / 1 VIOLATION line / 2 infrastructure failure. VERIF_SEED and VERIF_TIER are honoured.",
    }
    with open(os.path.join(VERIF, "MANIFEST.json"), "w") as f:
        json.dump(m, f, indent=1)


if __name__ == "__main__":
    main()
